#!/bin/bash
# seedregress.sh LANE PROP... : regression over all seeded changes of the given properties, in a
# private worktree of /repo (so several lanes can run side by side; never two lanes on the same
# property). For each seed: apply, run the property's quick check with FGSYM_REPO=<worktree>, undo.
LANE=$1; shift
WT=/tmp/seedlane_$LANE
OUT=/tmp/seedregress; mkdir -p $OUT
git -C /repo worktree remove --force $WT 2>/dev/null
git -C /repo worktree add -q --detach $WT HEAD || exit 2
for P in "$@"; do
  for S in /verif/seeded/$P /verif/seeded/${P}?; do
    [ -f $S/patch.diff ] || continue
    ID=$(basename $S)
    if ! git -C $WT apply $S/patch.diff 2>/dev/null; then echo "seed=$ID check=$P SKIPPED (patch does not apply to HEAD)"; continue; fi
    ( cd /verif && FGSYM_REPO=$WT timeout 1800 ./check $P quick > $OUT/$ID.$P.log 2>&1 )
    e=$?
    echo "seed=$ID check=$P exit=$e violations=$(grep -a -c '^VIOLATION' $OUT/$ID.$P.log) $(grep -a '^RESULT' $OUT/$ID.$P.log | cut -c1-140)"
    git -C $WT checkout -q -- . ; git -C $WT clean -fdq
  done
done
git -C /repo worktree remove --force $WT
