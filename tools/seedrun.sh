#!/bin/bash
# seedrun.sh SEED [PROP...] : apply /verif/seeded/SEED/patch.diff to /repo, run the quick checks, undo.
# Only one of these may run at a time (it changes /repo's working tree); nothing is committed in /repo.
ID=$1; shift
PROPS=${@:-${ID%b}}
OUT=${SEEDRUN_OUT:-/tmp/seedrun}
mkdir -p $OUT
cd /repo && git status --short | grep -q . && { echo "/repo not clean"; exit 2; }
git -C /repo apply /verif/seeded/$ID/patch.diff || exit 2
for P in $PROPS; do
  cd /verif && timeout 1800 ./check $P quick > $OUT/$ID.check.$P.log 2>&1
  echo "seed=$ID check=$P exit=$? violations=$(grep -a -c '^VIOLATION' $OUT/$ID.check.$P.log) $(grep -a '^RESULT' $OUT/$ID.check.$P.log | cut -c1-160)"
  grep -a '^VIOLATION' $OUT/$ID.check.$P.log | sed 's/.*replay=[^ ]*\/\([^\/]*\)-[0-9]*$/   \1/' | sort | uniq -c
done
git -C /repo checkout -- .
rm -rf /verif/replays
