package main

import (
	"fmt"
	"os"
	"path/filepath"
	"regexp"
	"strings"
)

// Native-run rewrites: overlay copies of leaf files of /repo's *current* working tree with
// (a) fault hooks in front of the three integer file helpers, (b) the wall clock replaced by the
// harness's virtual clock, (c) an optional havoc of PidLoop.Loop. They are used only by the
// natively compiled replay/validation binaries; the symbolic engine models the same leaves with
// intercepts. A rewrite that no longer applies (function renamed or removed) is skipped and the
// harnesses that need it fail their replay visibly instead of silently.
func init() {
	nativeRewrites = func(work string) (map[string]string, error) {
		out := map[string]string{}
		dir := filepath.Join(work, "native", "rewrites")
		_ = os.MkdirAll(dir, 0o755)
		put := func(rel, content string) error {
			p := filepath.Join(dir, strings.ReplaceAll(rel, "/", "__"))
			if err := os.WriteFile(p, []byte(content), 0o644); err != nil {
				return err
			}
			out[filepath.Join(repoDir, rel)] = p
			return nil
		}
		addImport := func(src string) string {
			re := regexp.MustCompile(`(?m)^package \w+\s*$`)
			loc := re.FindStringIndex(src)
			if loc == nil {
				return src
			}
			return src[:loc[1]] + "\n\nimport zzv \"github.com/markusressel/fan2go/internal/zzv\"\n" + src[loc[1]:]
		}
		// (a) internal/util/file.go
		if b, err := os.ReadFile(filepath.Join(repoDir, "internal/util/file.go")); err == nil {
			src := string(b)
			ok := true
			for _, fn := range []string{"ReadIntFromFile", "WriteIntToFile", "WriteIntToFileAtomic"} {
				re := regexp.MustCompile(`(?m)^func ` + fn + `\(`)
				if !re.MatchString(src) {
					ok = false
					break
				}
				src = re.ReplaceAllString(src, "func zzReal"+fn+"(")
			}
			if ok {
				src = addImport(src)
				src += `
func ReadIntFromFile(path string) (value int, err error) {
	if zzv.HookRead(path) {
		return -1, fmt.Errorf("zzv: injected read fault on %s", path)
	}
	return zzRealReadIntFromFile(path)
}

func WriteIntToFile(value int, path string) error {
	switch zzv.HookWrite(path) {
	case zzv.WriteError:
		return fmt.Errorf("zzv: injected write fault on %s", path)
	case zzv.WriteIgnored:
		return nil
	}
	return zzRealWriteIntToFile(value, path)
}

func WriteIntToFileAtomic(value int, path string) error {
	switch zzv.HookWrite(path) {
	case zzv.WriteError:
		return fmt.Errorf("zzv: injected write fault on %s", path)
	case zzv.WriteIgnored:
		return nil
	}
	return zzRealWriteIntToFileAtomic(value, path)
}
`
				if err := put("internal/util/file.go", src); err != nil {
					return nil, err
				}
			}
		}
		// (b)+(c) internal/util/pid.go
		if b, err := os.ReadFile(filepath.Join(repoDir, "internal/util/pid.go")); err == nil {
			src := string(b)
			src = strings.ReplaceAll(src, "time.Now()", "zzv.Now()")
			re := regexp.MustCompile(`(?m)^func \(p \*PidLoop\) Loop\(target float64, measured float64\) float64 \{\s*$`)
			if re.MatchString(src) {
				src = re.ReplaceAllString(src, "func (p *PidLoop) Loop(target float64, measured float64) float64 {\n\tif v, ok := zzv.Havoc(\"pid.loop\"); ok {\n\t\treturn v\n\t}")
			}
			src = addImport(src)
			if err := put("internal/util/pid.go", src); err != nil {
				return nil, err
			}
		}
		// (b) internal/control_loop/direct.go
		if b, err := os.ReadFile(filepath.Join(repoDir, "internal/control_loop/direct.go")); err == nil {
			src := string(b)
			if strings.Contains(src, "time.Now()") {
				src = strings.ReplaceAll(src, "time.Now()", "zzv.Now()")
				src = addImport(src)
				if err := put("internal/control_loop/direct.go", src); err != nil {
					return nil, err
				}
			}
		}
		return out, nil
	}
}

var _ = fmt.Sprint
