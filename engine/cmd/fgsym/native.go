package main

import (
	"bytes"
	"context"
	"encoding/json"
	"fmt"
	"math"
	"os"
	"os/exec"
	"path/filepath"
	"sort"
	"strings"
	"time"

	"golang.org/x/tools/go/ssa"

	"fgsym/smt"
	"fgsym/symex"
)

func mathBits(f float64) uint64 { return math.Float64bits(f) }

// native builds and runs the harnesses as ordinary Go code against the real packages
// (go test -overlay), for counterexample replay and translator validation.
type native struct {
	work    string
	files   []harnessFile
	prop    string
	tier    string
	bins    map[string]string // package path -> test binary
	failed  map[string]string
	overlay string
	modfile string
	extra   map[string]string // additional overlay replacements (rewritten repo files)
}

func newNative(work string, files []harnessFile, prop, tier string) *native {
	return &native{work: work, files: files, prop: prop, tier: tier, bins: map[string]string{}, failed: map[string]string{}}
}

func (n *native) cleanup() {}

func pkgDirOf(pkgPath string) string {
	return strings.TrimPrefix(strings.TrimPrefix(pkgPath, symex.RepoMod), "/")
}

// build compiles the test binary of the harness package (once).
func (n *native) build(pkgPath string, harnesses []string) (string, error) {
	if b, ok := n.bins[pkgPath]; ok {
		return b, nil
	}
	if msg, ok := n.failed[pkgPath]; ok {
		return "", fmt.Errorf("%s", msg)
	}
	dir := pkgDirOf(pkgPath)
	// discover all harness functions of this package dir from the overlay sources
	var names []string
	pkgName := ""
	for _, f := range n.files {
		if f.dir != dir {
			continue
		}
		b, _ := os.ReadFile(f.real)
		for _, ln := range strings.Split(string(b), "\n") {
			if strings.HasPrefix(ln, "package ") && pkgName == "" {
				pkgName = strings.TrimSpace(strings.TrimPrefix(ln, "package "))
			}
			if strings.HasPrefix(ln, "func ZZ_") {
				nm := strings.TrimPrefix(ln, "func ")
				nm = nm[:strings.Index(nm, "(")]
				names = append(names, nm)
			}
		}
	}
	sort.Strings(names)
	var sb strings.Builder
	fmt.Fprintf(&sb, "package %s\n\nimport (\n\t\"os\"\n\t\"testing\"\n\n\t\"%s\"\n)\n\n", pkgName, symex.ZzvPath)
	sb.WriteString("var zzHarnesses = map[string]func(){\n")
	for _, nm := range names {
		fmt.Fprintf(&sb, "\t%q: %s,\n", nm, nm)
	}
	sb.WriteString("}\n\nfunc TestZZReplay(t *testing.T) {\n\tf := zzHarnesses[os.Getenv(\"ZZV_HARNESS\")]\n\tif f == nil {\n\t\tt.Fatal(\"unknown harness\")\n\t}\n\tzzv.RunHarness(f)\n\tzzv.Cleanup()\n}\n")
	testFile := filepath.Join(n.work, "native", dir, "zz_replay_test.go")
	_ = os.MkdirAll(filepath.Dir(testFile), 0o755)
	if err := os.WriteFile(testFile, []byte(sb.String()), 0o644); err != nil {
		return "", err
	}
	repl := map[string]string{}
	for _, f := range n.files {
		repl[f.virt] = f.real
	}
	repl[filepath.Join(repoDir, dir, "zz_replay_test.go")] = testFile
	extra, err := nativeRewrites(n.work)
	if err != nil {
		return "", err
	}
	for k, v := range extra {
		repl[k] = v
	}
	ob, _ := json.Marshal(map[string]interface{}{"Replace": repl})
	ov := filepath.Join(n.work, "native", "overlay-"+strings.ReplaceAll(dir, "/", "_")+".json")
	if err := os.WriteFile(ov, ob, 0o644); err != nil {
		return "", err
	}
	mf, err := symex.WriteModFile(repoDir, verifDir, n.work)
	if err != nil {
		return "", err
	}
	bin := filepath.Join(n.work, "native", strings.ReplaceAll(dir, "/", "_")+".test")
	ctx, cancel := context.WithTimeout(context.Background(), 10*time.Minute)
	defer cancel()
	cmd := exec.CommandContext(ctx, "go", "test", "-c", "-o", bin, "-vet=off", "-modfile="+mf, "-overlay="+ov, "./"+dir)
	cmd.Dir = repoDir
	cmd.Env = append(symex.GoEnv(), "GOFLAGS=-mod=mod")
	var out bytes.Buffer
	cmd.Stdout, cmd.Stderr = &out, &out
	if err := cmd.Run(); err != nil {
		msg := fmt.Sprintf("native build of ./%s failed: %v\n%s", dir, err, out.String())
		n.failed[pkgPath] = msg
		return "", fmt.Errorf("%s", msg)
	}
	n.bins[pkgPath] = bin
	return bin, nil
}

type nativeRun struct {
	asserts    []string
	records    map[string][]string
	assumeFail bool
	panicMsg   string
	raw        string
}

func (n *native) run(pkgPath, harness, valuesFile string) (*nativeRun, error) {
	bin, err := n.build(pkgPath, nil)
	if err != nil {
		return nil, err
	}
	ctx, cancel := context.WithTimeout(context.Background(), 5*time.Minute)
	defer cancel()
	cmd := exec.CommandContext(ctx, bin, "-test.run", "^TestZZReplay$", "-test.v", "-test.count=1")
	cmd.Dir = filepath.Join(repoDir, pkgDirOf(pkgPath))
	cmd.Env = append(os.Environ(), "ZZV_VALUES="+valuesFile, "ZZV_HARNESS="+harness, "VERIF_TIER="+n.tier)
	var out bytes.Buffer
	cmd.Stdout, cmd.Stderr = &out, &out
	_ = cmd.Run()
	r := &nativeRun{records: map[string][]string{}, raw: out.String()}
	for _, ln := range strings.Split(out.String(), "\n") {
		ln = strings.TrimSpace(ln)
		switch {
		case strings.HasPrefix(ln, "ZZV-ASSERT-FAIL "):
			r.asserts = append(r.asserts, strings.TrimPrefix(ln, "ZZV-ASSERT-FAIL "))
		case strings.HasPrefix(ln, "ZZV-RECORD "):
			kv := strings.SplitN(strings.TrimPrefix(ln, "ZZV-RECORD "), "=", 2)
			if len(kv) == 2 {
				r.records[kv[0]] = append(r.records[kv[0]], kv[1])
			}
		case ln == "ZZV-ASSUME-FAIL":
			r.assumeFail = true
		case strings.HasPrefix(ln, "ZZV-PANIC"):
			r.panicMsg = strings.TrimSpace(strings.TrimPrefix(ln, "ZZV-PANIC"))
			if r.panicMsg == "" {
				r.panicMsg = "panic with an empty message (pterm Fatal printer)"
			}
		case (strings.HasPrefix(ln, "panic:") || strings.HasPrefix(ln, "fatal error:")) && r.panicMsg == "":
			r.panicMsg = ln
		}
	}
	return r, nil
}

type replayResult struct {
	status string // reproduced | not-reproduced | error
	detail string
}

// replay runs the solver's assignment natively; the violation is reported only if the same
// assertion fails (or, for a panic obligation, the real code panics).
func (n *native) replay(res symex.HarnessResult, vc *symex.VC, model map[string]*smt.Term, dir string) replayResult {
	_ = os.MkdirAll(dir, 0o755)
	vf := filepath.Join(dir, "values.json")
	if err := writeValues(vf, model, vc.Choices); err != nil {
		return replayResult{"error", err.Error()}
	}
	r, err := n.run(res.Pkg, res.Name, vf)
	if err != nil {
		return replayResult{"error", err.Error()}
	}
	_ = os.WriteFile(filepath.Join(dir, "native_output.txt"), []byte(r.raw), 0o644)
	info := fmt.Sprintf("property=%s\nharness=%s\nobligation=%s\nkind=%s\ninfo=%s\nreplay: cd /verif && ./check %s --replay %s\n", n.prop, res.Name, vc.Label, vc.Kind, vc.Info, n.prop, dir)
	_ = os.WriteFile(filepath.Join(dir, "README.txt"), []byte(info+"harness="+res.Name+"\npkg="+res.Pkg+"\n"), 0o644)
	if r.assumeFail {
		return replayResult{"not-reproduced", "an assumption failed natively"}
	}
	if vc.Kind == "panic" {
		if r.panicMsg != "" {
			return replayResult{"reproduced", r.panicMsg}
		}
		return replayResult{"not-reproduced", "no panic natively"}
	}
	for _, a := range r.asserts {
		if a == vc.Label {
			return replayResult{"reproduced", ""}
		}
	}
	if r.panicMsg != "" {
		return replayResult{"not-reproduced", "native run panicked instead: " + r.panicMsg}
	}
	return replayResult{"not-reproduced", "assertion held natively"}
}

// validate is the translator validation: for up to k completed paths an input assignment is
// obtained from the solver, the *encoding* is run on it (the interpreter in concrete mode: every
// term folds to a constant) and the *real code* is run on it (native build); both executions must
// agree on assumption outcome, failed assertions, panics and every recorded observable.
func (n *native) validate(eng *symex.Engine, fn *ssa.Function, res symex.HarnessResult, opts symex.DischargeOpts, k int) (int, string) {
	if len(res.Ends) == 0 {
		return 0, ""
	}
	step := len(res.Ends) / k
	if step == 0 {
		step = 1
	}
	done := 0
	o := opts
	if o.FPTimeout > 60*time.Second {
		o.FPTimeout = 60 * time.Second
	}
	for i := 0; i < len(res.Ends) && done < k; i += step {
		pe := res.Ends[i]
		model, ok := symex.GuessInputs(pe, o)
		if !ok {
			continue
		}
		in := &symex.ConcreteInputs{Values: model, Choices: map[string]int{}}
		for _, c := range pe.Choices {
			in.Choices[c.Name] = c.V
		}
		tr := eng.RunConcrete(fn, in)
		if tr.Aborted != "" {
			return done, "concrete interpretation aborted: " + tr.Aborted
		}
		vf := filepath.Join(n.work, fmt.Sprintf("tv-%s-%d.json", res.Name, i))
		if err := writeValues(vf, model, pe.Choices); err != nil {
			return done, err.Error()
		}
		nr, err := n.run(res.Pkg, res.Name, vf)
		if err != nil {
			return done, err.Error()
		}
		where := fmt.Sprintf("path %d (inputs %s)", i, modelString(model, pe.Choices))
		if tr.AssumeFail != nr.assumeFail {
			return done, fmt.Sprintf("%s: assumption outcome differs: encoding assumeFail=%v, native assumeFail=%v", where, tr.AssumeFail, nr.assumeFail)
		}
		if tr.AssumeFail {
			continue // consistent, but not a useful trace
		}
		if (tr.Panic != "") != (nr.panicMsg != "") {
			return done, fmt.Sprintf("%s: panic outcome differs: encoding %q, native %q", where, tr.Panic, nr.panicMsg)
		}
		if len(tr.Failed) > 0 {
			if len(nr.asserts) == 0 || nr.asserts[0] != tr.Failed[0] {
				return done, fmt.Sprintf("%s: failed assertion differs: encoding %v, native %v", where, tr.Failed, nr.asserts)
			}
		} else if len(nr.asserts) > 0 {
			return done, fmt.Sprintf("%s: native assertion %v failed where the encoding evaluates it to true", where, nr.asserts)
		}
		idx := map[string]int{}
		for _, rec := range tr.Recs {
			if !rec.V.IsConst() {
				return done, fmt.Sprintf("%s: record %s did not fold to a constant in concrete mode", where, rec.Tag)
			}
			want := termJSON(rec.V)
			got := ""
			if l := nr.records[rec.Tag]; idx[rec.Tag] < len(l) {
				got = l[idx[rec.Tag]]
			}
			idx[rec.Tag]++
			if got != want {
				return done, fmt.Sprintf("%s: record %s: encoding gives %s, real code gives %q", where, rec.Tag, want, got)
			}
		}
		done++
	}
	return done, ""
}

// nativeRewrites produces overlay copies of repo leaf files for native runs (fault hooks,
// virtual clock). Filled in by rewrite.go.
var nativeRewrites = func(work string) (map[string]string, error) { return nil, nil }
