// fgsym: solver-based checking of fan2go properties.
//
//	fgsym check <PROP> [quick|thorough]
//
// Loads /repo's current working tree (go/packages + go/ssa) together with the overlay harnesses of
// the property, executes every harness ZZ_<PROP>_* symbolically, discharges the verification
// conditions with SMT solvers, replays every counterexample natively against the real code and
// writes /verif/evidence/<PROP>.json.
package main

import (
	"encoding/json"
	"fmt"
	"os"
	"path/filepath"
	"regexp"
	"sort"
	"strconv"
	"strings"
	"sync"
	"time"

	"golang.org/x/tools/go/ssa"

	"fgsym/smt"
	"fgsym/symex"
)

var (
	repoDir  = envOr("FGSYM_REPO", "/repo")
	verifDir = envOr("FGSYM_VERIF", "/verif")
)

func envOr(k, d string) string {
	if v := os.Getenv(k); v != "" {
		return v
	}
	return d
}

func main() {
	if len(os.Args) < 3 || os.Args[1] != "check" {
		fmt.Fprintln(os.Stderr, "usage: fgsym check <PROP> [quick|thorough] [-v] [-keep] [-only <substr>]")
		os.Exit(2)
	}
	prop := os.Args[2]
	tier := "quick"
	if t := os.Getenv("VERIF_TIER"); t == "thorough" || t == "quick" {
		tier = t
	}
	verbose, keep := false, false
	only := ""
	for i := 3; i < len(os.Args); i++ {
		switch os.Args[i] {
		case "quick", "thorough":
			tier = os.Args[i]
		case "-v":
			verbose = true
		case "-keep":
			keep = true
		case "-only":
			i++
			only = os.Args[i]
		case "--replay":
			i++
			os.Exit(runReplay(prop, tier, os.Args[i]))
		}
	}
	os.Setenv("VERIF_TIER", tier)
	code := runCheck(prop, tier, verbose, keep, only)
	os.Exit(code)
}

type harnessFile struct {
	real string // /verif/harness/<rel>
	virt string // /repo/<rel>
	dir  string // package dir relative to repo
}

type annotations struct {
	Bounds    map[string]string
	Outside   []string
	Assume    []string
	Stubs     []string
	Opts      map[string]string
	Inductive map[string]bool
}

var annRe = regexp.MustCompile(`^\s*//zzv:(\w+)\s+(.*)$`)

func parseAnnotations(files []harnessFile, prop string) annotations {
	a := annotations{Bounds: map[string]string{}, Opts: map[string]string{}, Inductive: map[string]bool{}}
	for _, f := range files {
		if !strings.Contains(filepath.Base(f.real), prop) {
			continue
		}
		b, _ := os.ReadFile(f.real)
		for _, ln := range strings.Split(string(b), "\n") {
			m := annRe.FindStringSubmatch(ln)
			if m == nil {
				continue
			}
			val := strings.TrimSpace(m[2])
			switch m[1] {
			case "bound":
				kv := strings.SplitN(val, "=", 2)
				if len(kv) == 2 {
					a.Bounds[strings.TrimSpace(kv[0])] = strings.TrimSpace(kv[1])
				}
			case "outside":
				a.Outside = append(a.Outside, val)
			case "assume":
				a.Assume = append(a.Assume, val)
			case "stub":
				a.Stubs = append(a.Stubs, val)
			case "inductive":
				for _, h := range strings.Fields(val) {
					a.Inductive[h] = true
				}
			case "opts":
				for _, kv := range strings.Fields(val) {
					p := strings.SplitN(kv, "=", 2)
					if len(p) == 2 {
						a.Opts[p[0]] = p[1]
					}
				}
			}
		}
	}
	return a
}

func findHarnessFiles(prop string) []harnessFile {
	var out []harnessFile
	root := filepath.Join(verifDir, "harness")
	_ = filepath.Walk(root, func(p string, info os.FileInfo, err error) error {
		if err != nil || info.IsDir() {
			return nil
		}
		rel, _ := filepath.Rel(root, p)
		base := filepath.Base(p)
		dir := filepath.Dir(rel)
		switch {
		case dir == "zzv":
			out = append(out, harnessFile{real: p, virt: filepath.Join(repoDir, "internal/zzv", base), dir: "internal/zzv"})
		case strings.HasPrefix(base, "zz_verif_"+prop) || strings.HasPrefix(base, "zz_verif_common"):
			out = append(out, harnessFile{real: p, virt: filepath.Join(repoDir, rel), dir: dir})
		}
		return nil
	})
	// common files only count for directories that also hold a property harness
	dirs := map[string]bool{}
	for _, f := range out {
		if strings.HasPrefix(filepath.Base(f.real), "zz_verif_"+prop) {
			dirs[f.dir] = true
		}
	}
	var res []harnessFile
	for _, f := range out {
		if f.dir == "internal/zzv" || dirs[f.dir] || strings.HasPrefix(filepath.Base(f.real), "zz_verif_common") {
			res = append(res, f)
		}
	}
	return res
}

type sample struct {
	Obligation  string   `json:"obligation"`
	Harness     string   `json:"harness"`
	Bound       string   `json:"bound,omitempty"`
	Paths       int      `json:"paths"`
	Queries     int      `json:"queries"`
	Result      string   `json:"result"`
	Reachable   bool     `json:"witness_reachable"`
	SolverTimeS float64  `json:"solver_time_s"`
	Notes       []string `json:"notes,omitempty"`
}

type finding struct {
	Property string          `json:"property"`
	Key      string          `json:"key"`
	Status   string          `json:"status"`
	Harness  string          `json:"harness"`
	Label    string          `json:"label"`
	When     [][]interface{} `json:"when,omitempty"`
	What     string          `json:"what"`
	Commit   string          `json:"commit,omitempty"`
}

func loadFindings(prop string) []finding {
	b, err := os.ReadFile(filepath.Join(verifDir, "known_findings.json"))
	if err != nil {
		return nil
	}
	var all []finding
	if err := json.Unmarshal(b, &all); err != nil {
		fmt.Fprintf(os.Stderr, "known_findings.json: %v\n", err)
		os.Exit(2)
	}
	var out []finding
	for _, f := range all {
		if f.Property == prop {
			out = append(out, f)
		}
	}
	return out
}

// findingTerm turns the `when` clauses into a term over the VC's nondet variables and choices.
// ok=false when the finding cannot apply to this VC (different choice branch).
func findingTerm(f finding, vc *symex.VC) (*smt.Term, bool, error) {
	t := smt.True
	for _, cl := range f.When {
		if len(cl) != 3 {
			return nil, false, fmt.Errorf("finding %s: bad clause", f.Key)
		}
		name, _ := cl[0].(string)
		op, _ := cl[1].(string)
		num, isNum := cl[2].(float64)
		if strings.HasPrefix(name, "choice:") {
			found := false
			for _, c := range vc.Choices {
				if c.Name == name {
					found = true
					if (op == "==") != (c.V == int(num)) {
						return nil, false, nil
					}
				}
			}
			if !found {
				return nil, false, nil
			}
			continue
		}
		var v *smt.Term
		for _, n := range vc.Nondets {
			if n.Name == name {
				v = n
			}
		}
		if v == nil {
			return nil, false, nil
		}
		var c *smt.Term
		switch v.Sort.K {
		case smt.KBool:
			bv, _ := cl[2].(bool)
			c = smt.Eq(v, smt.BoolC(bv))
		case smt.KBV:
			if !isNum {
				return nil, false, fmt.Errorf("finding %s: clause on %s needs a number", f.Key, name)
			}
			k := smt.BVC(uint64(int64(num)), v.Sort.W)
			switch op {
			case "==":
				c = smt.Eq(v, k)
			case "!=":
				c = smt.Not(smt.Eq(v, k))
			case "<":
				c = smt.BVCmp(smt.OpBVSlt, v, k)
			case "<=":
				c = smt.BVCmp(smt.OpBVSle, v, k)
			case ">":
				c = smt.BVCmp(smt.OpBVSlt, k, v)
			case ">=":
				c = smt.BVCmp(smt.OpBVSle, k, v)
			default:
				return nil, false, fmt.Errorf("finding %s: bad operator %s", f.Key, op)
			}
		default:
			return nil, false, fmt.Errorf("finding %s: clauses on floats are not supported", f.Key)
		}
		if op == "!=" && v.Sort.K == smt.KBool {
			c = smt.Not(c)
		}
		t = smt.And(t, c)
	}
	return t, true, nil
}

func termJSON(t *smt.Term) string {
	switch t.Sort.K {
	case smt.KBool:
		if t.U == 1 {
			return "true"
		}
		return "false"
	case smt.KBV:
		if t.Sort.W == 32 {
			return strconv.FormatUint(t.U, 10)
		}
		return strconv.FormatInt(t.SInt(), 10)
	default:
		return fmt.Sprintf("f:%016x", mathBits(t.F))
	}
}

func writeValues(path string, model map[string]*smt.Term, choices []symex.ChoiceRec) error {
	vals := map[string]string{}
	for k, v := range model {
		vals[k] = termJSON(v)
	}
	ch := map[string]int{}
	for _, c := range choices {
		ch[c.Name] = c.V
	}
	b, _ := json.MarshalIndent(map[string]interface{}{"values": vals, "choices": ch}, "", " ")
	return os.WriteFile(path, b, 0o644)
}

func runCheck(prop, tier string, verbose, keep bool, only string) int {
	t0 := time.Now()
	files := findHarnessFiles(prop)
	hasProp := false
	for _, f := range files {
		if strings.HasPrefix(filepath.Base(f.real), "zz_verif_"+prop) {
			hasProp = true
		}
	}
	if !hasProp {
		fmt.Fprintf(os.Stderr, "no harness for %s\n", prop)
		return 2
	}
	ann := parseAnnotations(files, prop)
	work := filepath.Join(verifDir, ".work", fmt.Sprintf("%s-%s-%d", prop, tier, os.Getpid()))
	_ = os.MkdirAll(work, 0o755)
	if !keep {
		defer os.RemoveAll(work)
	}
	smt.WorkDir = filepath.Join(work, "queries")
	smt.KeepFiles = keep

	overlay := map[string]string{}
	dirs := map[string]bool{}
	for _, f := range files {
		overlay[f.virt] = f.real
		dirs[f.dir] = true
	}
	var patterns []string
	for d := range dirs {
		patterns = append(patterns, "./"+d)
	}
	sort.Strings(patterns)
	cfg := symex.Config{
		RepoDir: repoDir, VerifDir: verifDir, WorkDir: work, Patterns: patterns, Overlay: overlay,
		Prune: true, Merge: true, Verbose: verbose, Thorough: tier == "thorough",
	}
	if v, ok := ann.Opts["loopbound"]; ok {
		cfg.LoopBound, _ = strconv.Atoi(v)
	}
	if v, ok := ann.Opts["maxsteps"]; ok {
		cfg.MaxSteps, _ = strconv.Atoi(v)
	}
	if ann.Opts["prune"] == "off" {
		cfg.Prune = false
	}
	if ann.Opts["merge"] == "off" {
		cfg.Merge = false
	}
	eng, err := symex.Load(cfg)
	if err != nil {
		fmt.Fprintf(os.Stderr, "ENGINE-FAILURE load: %v\n", err)
		return 2
	}
	loadS := time.Since(t0).Seconds()
	hs := eng.HarnessFuncs("ZZ_" + prop + "_")
	if len(hs) == 0 {
		fmt.Fprintf(os.Stderr, "ENGINE-FAILURE no harness functions ZZ_%s_*\n", prop)
		return 2
	}

	opts := symex.DischargeOpts{Workers: 16, FPBackend: smt.CVC5, IntBackend: smt.Z3Old}
	if tier == "thorough" {
		opts.IntTimeout, opts.FPTimeout, opts.CrossCheck = 300*time.Second, 900*time.Second, true
	} else {
		opts.IntTimeout, opts.FPTimeout = 30*time.Second, 200*time.Second
	}
	if v, ok := ann.Opts["fptimeout_"+tier]; ok {
		s, _ := strconv.Atoi(v)
		opts.FPTimeout = time.Duration(s) * time.Second
	}
	if v, ok := ann.Opts["inttimeout_"+tier]; ok {
		s, _ := strconv.Atoi(v)
		opts.IntTimeout = time.Duration(s) * time.Second
	}
	if ann.Opts["intbackend"] == "cvc5" {
		opts.IntBackend = smt.CVC5
	}
	if ann.Opts["intbackend"] == "z3-new" {
		opts.IntBackend = smt.Z3New
	}

	findings := loadFindings(prop)
	native := newNative(work, files, prop, tier)

	var samples []sample
	exit := 0
	violations := 0
	var notes []string
	var knownSeen []string
	totalPaths, validated, crossChecked := 0, 0, 0
	inconclusive := 0
	engineFail := false

	type hrun struct {
		fn  *ssa.Function
		res symex.HarnessResult
	}
	var runs []hrun
	var allVCs []*symex.VC
	for _, h := range hs {
		if only != "" && !strings.Contains(h.Name(), only) {
			continue
		}
		eng.Cfg.Merge = cfg.Merge
		res := eng.RunHarness(h)
		totalPaths += res.Paths
		if res.Aborted != "" {
			fmt.Printf("ENGINE-FAILURE harness=%s: %s\n", res.Name, res.Aborted)
			engineFail = true
			continue
		}
		if verbose {
			fmt.Fprintf(os.Stderr, "harness %s: %d paths, %d VCs, %.1fs symbolic execution\n", res.Name, res.Paths, len(res.VCs), res.Wall)
		}
		runs = append(runs, hrun{h, res})
		allVCs = append(allVCs, res.VCs...)
	}
	// known-finding exclusion terms
	extra := func(vc *symex.VC) []*smt.Term {
		var ts []*smt.Term
		for _, f := range findings {
			if f.Status != "known" || f.Harness != vc.Harness || f.Label != vc.Label {
				continue
			}
			t, ok, err := findingTerm(f, vc)
			if err != nil {
				fmt.Fprintf(os.Stderr, "ENGINE-FAILURE %v\n", err)
				os.Exit(2)
			}
			if ok {
				ts = append(ts, smt.Not(t))
			}
		}
		return ts
	}
	tD := time.Now()
	allVerdicts := symex.Discharge(allVCs, extra, opts)
	if verbose {
		fmt.Fprintf(os.Stderr, "discharged %d VCs in %.1fs\n", len(allVCs), time.Since(tD).Seconds())
		vs := append([]symex.Verdict(nil), allVerdicts...)
		sort.Slice(vs, func(i, j int) bool { return vs[i].Seconds > vs[j].Seconds })
		for i := 0; i < len(vs) && i < 8; i++ {
			fmt.Fprintf(os.Stderr, "  slow: %s/%-36s %-8s %6.1fs %s choices=%v\n", vs[i].VC.Harness, vs[i].VC.Label, vs[i].Res, vs[i].Seconds, vs[i].Solver, vs[i].VC.Choices)
		}
	}
	verdictOf := map[*symex.VC]symex.Verdict{}
	vcUnsat, vcSat, vcUnknown, vcAbstracted := 0, 0, 0, 0
	for _, v := range allVerdicts {
		verdictOf[v.VC] = v
		switch v.Res {
		case smt.Unsat:
			vcUnsat++
		case smt.Sat:
			vcSat++
		default:
			vcUnknown++
		}
		if v.Abstracted > 0 {
			vcAbstracted++
		}
	}
	// presence of every known finding: ¬O ∧ K on each candidate path, all in one parallel batch
	knownPresent := map[string]bool{}
	{
		var kvcs []*symex.VC
		kterm := map[*symex.VC]*smt.Term{}
		kkey := map[*symex.VC]string{}
		for _, f := range findings {
			if f.Status != "known" {
				continue
			}
			for _, vc := range allVCs {
				if vc.Harness != f.Harness || vc.Label != f.Label {
					continue
				}
				t, ok, _ := findingTerm(f, vc)
				if !ok {
					continue
				}
				c := *vc // a copy, so that the same VC can be asked under several findings
				kvcs = append(kvcs, &c)
				kterm[&c] = t
				kkey[&c] = f.Key
			}
		}
		for _, v := range symex.Discharge(kvcs, func(vc *symex.VC) []*smt.Term { return []*smt.Term{kterm[vc]} }, opts) {
			if v.Res == smt.Sat {
				knownPresent[kkey[v.VC]] = true
			}
		}
	}
	for _, hr := range runs {
		h, res := hr.fn, hr.res
		// group VCs by label
		byLabel := map[string][]*symex.VC{}
		var labels []string
		for _, vc := range res.VCs {
			if _, ok := byLabel[vc.Label]; !ok {
				labels = append(labels, vc.Label)
			}
			byLabel[vc.Label] = append(byLabel[vc.Label], vc)
		}
		var verdicts []symex.Verdict
		for _, vc := range res.VCs {
			verdicts = append(verdicts, verdictOf[vc])
		}
		vByLabel := map[string][]symex.Verdict{}
		for _, v := range verdicts {
			vByLabel[v.VC.Label] = append(vByLabel[v.VC.Label], v)
		}
		tR := time.Now()
		reach := reachableAll(labels, byLabel, opts)
		if verbose {
			fmt.Fprintf(os.Stderr, "  reachability witnesses: %.1fs\n", time.Since(tR).Seconds())
		}
		for _, label := range labels {
			vs := vByLabel[label]
			s := sample{Obligation: label, Harness: res.Name, Bound: ann.Bounds[strings.SplitN(label, ".", 2)[0]], Paths: len(vs)}
			if b, ok := ann.Bounds[label]; ok {
				s.Bound = b
			}
			nUnsat, nSat, nUnk := 0, 0, 0
			moreCE := 0
			for _, v := range vs {
				s.Queries++
				s.SolverTimeS += v.Seconds
				if v.Cross != "" {
					crossChecked++
					if v.Cross == "sat" {
						fmt.Printf("ENGINE-FAILURE solver disagreement on %s/%s (%s says unsat, cross-check says sat)\n", res.Name, label, v.Solver)
						engineFail = true
					}
				}
				switch v.Res {
				case smt.Unsat:
					nUnsat++
				case smt.Sat:
					nSat++
					if v.VC.Kind == "unwind" && strings.Contains(v.VC.Info, "recursion depth exceeded") && nSat <= maxReplaysPerObligation {
						// unbounded recursion in the code under test? the native run decides (stack overflow)
						dir := filepath.Join(verifDir, "replays", prop, fmt.Sprintf("%s-%s-%d", res.Name, sanitize(label), nSat))
						pv := *v.VC
						pv.Kind = "panic"
						if rep := native.replay(res, &pv, v.Model, dir); rep.status == "reproduced" {
							violations++
							exit = 1
							fmt.Printf("VIOLATION property=%s replay=%s\n", prop, dir)
							fmt.Printf("  harness=%s obligation=%s endless recursion: %s (native: %s)\n  inputs: %s\n", res.Name, label, v.VC.Info, rep.detail, modelString(v.Model, v.VC.Choices))
							s.Notes = append(s.Notes, "endless recursion: "+modelString(v.Model, v.VC.Choices))
							continue
						}
						_ = os.RemoveAll(dir)
					}
					if v.VC.Kind == "unwind" {
						fmt.Printf("INCONCLUSIVE property=%s harness=%s unwinding bound reached: %s\n", prop, res.Name, v.VC.Info)
						s.Notes = append(s.Notes, "unwinding bound reached: "+v.VC.Info)
						inconclusive++
						continue
					}
					if nSat > maxReplaysPerObligation {
						// further counterexamples of the same obligation are counted, not replayed
						moreCE++
						continue
					}
					dir := filepath.Join(verifDir, "replays", prop, fmt.Sprintf("%s-%s-%d", res.Name, sanitize(label), nSat))
					rep := native.replay(res, v.VC, v.Model, dir)
					switch rep.status {
					case "reproduced":
						violations++
						exit = 1
						fmt.Printf("VIOLATION property=%s replay=%s\n", prop, dir)
						fmt.Printf("  harness=%s obligation=%s %s\n  inputs: %s\n", res.Name, label, v.VC.Info, modelString(v.Model, v.VC.Choices))
						s.Notes = append(s.Notes, "violated: "+modelString(v.Model, v.VC.Choices))
					case "not-reproduced":
						fmt.Printf("INCONCLUSIVE property=%s harness=%s obligation=%s: solver counterexample did not reproduce natively (%s) [%s]\n", prop, res.Name, label, rep.detail, v.VC.Info)
						s.Notes = append(s.Notes, "counterexample did not reproduce natively: "+modelString(v.Model, v.VC.Choices))
						inconclusive++
						_ = os.RemoveAll(dir)
					default:
						fmt.Printf("ENGINE-FAILURE replay of %s/%s failed: %s\n", res.Name, label, rep.detail)
						engineFail = true
					}
				default:
					nUnk++
					fmt.Printf("INCONCLUSIVE property=%s harness=%s obligation=%s: solver answered %s after %.0fs\n", prop, res.Name, label, v.Res, v.Seconds)
					inconclusive++
				}
			}
			if moreCE > 0 {
				fmt.Printf("  (%d further counterexamples of %s/%s were not replayed)\n", moreCE, res.Name, label)
			}
			switch {
			case nSat > 0:
				s.Result = fmt.Sprintf("sat on %d of %d paths", nSat, len(vs))
			case nUnk > 0:
				s.Result = fmt.Sprintf("unknown on %d of %d paths (not a pass)", nUnk, len(vs))
			default:
				s.Result = "unsat"
			}
			// known findings still present? (all candidate paths of all entries in one parallel batch)
			for _, f := range findings {
				if f.Harness != res.Name || f.Label != label || f.Status != "known" {
					continue
				}
				seen := knownPresent[f.Key]
				if seen {
					fmt.Printf("KNOWN-FINDING: property=%s %s [%s]\n", prop, f.What, f.Key)
					knownSeen = append(knownSeen, f.Key)
					s.Notes = append(s.Notes, "known finding present: "+f.Key)
				} else {
					notes = append(notes, "known finding "+f.Key+" no longer observed (stale entry)")
				}
			}
			// reachability witness: at least one path to this assertion site is satisfiable
			s.Reachable = reach[label]
			if !s.Reachable && label != "nopanic" && label != "unwinding" {
				fmt.Printf("ENGINE-FAILURE vacuous obligation %s/%s: no satisfiable path reaches the assertion\n", res.Name, label)
				engineFail = true
			}
			samples = append(samples, s)
		}
		// translator validation: replay satisfiable complete paths natively and compare records
		tV := time.Now()
		nv, bad := native.validate(eng, h, res, opts, 3)
		if verbose {
			fmt.Fprintf(os.Stderr, "  translator validation (%d traces): %.1fs\n", nv, time.Since(tV).Seconds())
		}
		validated += nv
		if bad != "" {
			fmt.Printf("ENGINE-FAILURE translator validation failed for %s: %s\n", res.Name, bad)
			engineFail = true
		}
		if len(res.Ends) == 0 && len(res.VCs) == 0 {
			fmt.Printf("ENGINE-FAILURE harness %s has no feasible path\n", res.Name)
			engineFail = true
		}
	}
	native.cleanup()
	eng.Close()

	ev := map[string]interface{}{
		"property_id": prop, "tier": tier, "seed": 0, "level": "model_checking",
		"coverage": map[string]interface{}{
			"states":                         max(totalPaths, 1),
			"transitions":                    max(eng.Instrs, 1),
			"traces_validated_against_impl":  validated,
			"samples":                        samples,
			"functions_encoded":              symex.SortedKeys(eng.Funcs),
			"stubs":                          append(symex.SortedKeys(eng.Stubs), ann.Stubs...),
			"bounds":                         ann.Bounds,
			"outside_bounds":                 ann.Outside,
			"verification_conditions":        len(allVCs),
			"vc_unsat":                       vcUnsat,
			"vc_sat":                         vcSat,
			"vc_unknown":                     vcUnknown,
			"vc_decided_under_kernel_lemmas": vcAbstracted,
			"queries":                        smt.StatQueries,
			"unsat":                          smt.StatByRes[smt.Unsat],
			"sat":                            smt.StatByRes[smt.Sat],
			"unknown":                        smt.StatByRes[smt.Unknown] + smt.StatByRes[smt.Error],
			"prune_queries":                  eng.PruneQueries,
			"path_merges":                    eng.Merges,
			"solver_time_s":                  round2(smt.StatSeconds),
			"solvers":                        symex.SortedKeys(smt.StatSolvers),
			"cross_checked":                  crossChecked,
			"known_findings_seen":            knownSeen,
			"kernel_lemmas":                  smt.Lemmas(),
			"inconclusive":                   inconclusive,
			"load_s":                         round2(loadS),
			"notes":                          notes,
			"explanation":                    "bounded symbolic execution of the real go/ssa code; states = symbolic paths completed, transitions = SSA instructions interpreted; vc_* count verification conditions by final verdict; queries/unsat/sat/unknown count individual solver calls (portfolio slices, reachability witnesses, validation inputs and lemma cases included)",
		},
		"assumptions": append([]string{"GOARCH=amd64 float-to-int conversion (out-of-range and NaN give MinInt64)", "encoding regenerated from /repo working tree on this run"}, ann.Assume...),
		"wall_s":      round2(time.Since(t0).Seconds()),
		"violations":  violations,
	}
	if engineFail {
		exit = 2
		fmt.Printf("RESULT property=%s tier=%s ENGINE-FAILURE (no verdict)\n", prop, tier)
	}
	if exit != 2 {
		_ = os.MkdirAll(filepath.Join(verifDir, "evidence"), 0o755)
		b, _ := json.MarshalIndent(ev, "", " ")
		if err := os.WriteFile(filepath.Join(verifDir, "evidence", prop+".json"), b, 0o644); err != nil {
			fmt.Fprintf(os.Stderr, "cannot write evidence: %v\n", err)
			return 2
		}
		fmt.Printf("RESULT property=%s tier=%s violations=%d inconclusive=%d known=%d paths=%d queries=%d solver_s=%.1f wall_s=%.1f\n",
			prop, tier, violations, inconclusive, len(knownSeen), totalPaths, smt.StatQueries, smt.StatSeconds, time.Since(t0).Seconds())
	}
	return exit
}

// reachableAll finds, per assertion label, one satisfiable path condition reaching it (vacuity guard).
// Candidates are tried in parallel, shortest path condition first.
const maxReplaysPerObligation = 3

func reachableAll(labels []string, byLabel map[string][]*symex.VC, opts symex.DischargeOpts) map[string]bool {
	out := map[string]bool{}
	var mu sync.Mutex
	sem := make(chan struct{}, 16)
	o := opts
	// witnesses are sat queries: 90 s in the quick tier, 300 s in the thorough tier (symbolic
	// configurations make even the witness a several-minute floating-point query)
	wcap := 90 * time.Second
	if o.CrossCheck {
		wcap = 300 * time.Second
	}
	if o.FPTimeout > wcap {
		o.FPTimeout = wcap
	}
	o.CrossCheck = false
	try := func(label string, vcs []*symex.VC, exact bool) {
		var wg sync.WaitGroup
		for _, vc := range vcs {
			wg.Add(1)
			go func(vc *symex.VC) {
				defer wg.Done()
				sem <- struct{}{}
				defer func() { <-sem }()
				mu.Lock()
				done := out[label]
				mu.Unlock()
				if done {
					return
				}
				r, _, _ := symex.SolvePath(symex.PathEnd{PC: vc.PC, Nondets: vc.Nondets}, o, exact)
				if r == smt.Sat {
					mu.Lock()
					out[label] = true
					mu.Unlock()
				}
			}(vc)
		}
		wg.Wait()
	}
	// pass 0: abstraction-guided only, the 6 smallest path conditions; pass 1: exact queries for
	// labels still without a witness, in batches of 24 by size (the smallest paths to an assertion
	// are often the infeasible early exits of the code under test), up to 240 paths
	var wg sync.WaitGroup
	for _, label := range labels {
		wg.Add(1)
		go func(label string) {
			defer wg.Done()
			vcs := append([]*symex.VC(nil), byLabel[label]...)
			sort.SliceStable(vcs, func(i, j int) bool { return smt.Size(vcs[i].PC...) < smt.Size(vcs[j].PC...) })
			first := vcs
			if len(first) > 6 {
				first = first[:6]
			}
			try(label, first, false)
			// order of attempts: the 24 smallest, the 24 largest, 24 evenly spread, then the rest from
			// the small end (the smallest path conditions are often infeasible early exits)
			var order []*symex.VC
			seen := map[int]bool{}
			add := func(i int) {
				if i >= 0 && i < len(vcs) && !seen[i] {
					seen[i] = true
					order = append(order, vcs[i])
				}
			}
			for i := 0; i < 24; i++ {
				add(i)
			}
			for i := 0; i < 24; i++ {
				add(len(vcs) - 1 - i)
			}
			for i := 0; i < 24; i++ {
				add(i * len(vcs) / 24)
			}
			for i := 0; i < len(vcs); i++ {
				add(i)
			}
			for start := 0; start < len(order) && start < 240; start += 24 {
				mu.Lock()
				done := out[label]
				mu.Unlock()
				if done {
					return
				}
				end := start + 24
				if end > len(order) {
					end = len(order)
				}
				try(label, order[start:end], true)
			}
		}(label)
	}
	wg.Wait()
	return out
}

func sanitize(s string) string {
	return regexp.MustCompile(`[^A-Za-z0-9_.-]`).ReplaceAllString(s, "_")
}

func round2(f float64) float64 { return float64(int(f*100+0.5)) / 100 }

func modelString(m map[string]*smt.Term, ch []symex.ChoiceRec) string {
	var ks []string
	for k := range m {
		ks = append(ks, k)
	}
	sort.Strings(ks)
	var parts []string
	for _, c := range ch {
		parts = append(parts, fmt.Sprintf("%s=%d", c.Name, c.V))
	}
	for _, k := range ks {
		v := m[k]
		switch v.Sort.K {
		case smt.KBool:
			parts = append(parts, fmt.Sprintf("%s=%v", k, v.U == 1))
		case smt.KBV:
			parts = append(parts, fmt.Sprintf("%s=%d", k, v.SInt()))
		default:
			parts = append(parts, fmt.Sprintf("%s=%v", k, v.F))
		}
	}
	s := strings.Join(parts, " ")
	if len(s) > 600 {
		s = s[:600] + "..."
	}
	return s
}

// runReplay re-runs a recorded counterexample natively against /repo's current tree.
func runReplay(prop, tier, dir string) int {
	b, err := os.ReadFile(filepath.Join(dir, "README.txt"))
	if err != nil {
		fmt.Fprintf(os.Stderr, "not a replay directory: %v\n", err)
		return 2
	}
	kv := map[string]string{}
	for _, ln := range strings.Split(string(b), "\n") {
		if i := strings.Index(ln, "="); i > 0 {
			kv[ln[:i]] = ln[i+1:]
		}
	}
	files := findHarnessFiles(prop)
	work := filepath.Join(verifDir, ".work", fmt.Sprintf("%s-replay-%d", prop, os.Getpid()))
	_ = os.MkdirAll(work, 0o755)
	defer os.RemoveAll(work)
	n := newNative(work, files, prop, tier)
	r, err := n.run(kv["pkg"], kv["harness"], filepath.Join(dir, "values.json"))
	if err != nil {
		fmt.Fprintf(os.Stderr, "ENGINE-FAILURE %v\n", err)
		return 2
	}
	fmt.Print(r.raw)
	failed := r.panicMsg != "" && kv["kind"] == "panic"
	for _, a := range r.asserts {
		if a == kv["obligation"] {
			failed = true
		}
	}
	if failed && !r.assumeFail {
		fmt.Printf("VIOLATION property=%s replay=%s\n", prop, dir)
		return 1
	}
	fmt.Printf("replay of %s: the recorded counterexample does not fail on the current tree\n", dir)
	return 0
}
