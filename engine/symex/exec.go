package symex

import (
	"fmt"
	"go/constant"
	"go/token"
	"go/types"
	"strconv"
	"strings"

	"golang.org/x/tools/go/ssa"

	"fgsym/smt"
)

// PanicInfo describes a Go run-time panic or an explicit panic/ui.Fatal.
type PanicInfo struct {
	Kind string // nil-deref, index, divzero, typeassert, explicit, fatal, unwind, unsupported
	Msg  string
	Pos  string
}

type Outcome struct {
	St    *State
	Ret   Value
	Panic *PanicInfo
}

type deferred struct {
	fn   Value
	args []Value
	call *ssa.CallCommon
}

type frame struct {
	fn     *ssa.Function
	env    map[ssa.Value]Value
	block  *ssa.BasicBlock
	prev   *ssa.BasicBlock
	idx    int
	defers []deferred
	st     *State
	visits map[int]int // per-block visit counter (loop bound)
	// when a panic is propagating through this frame (running defers)
	panicking *PanicInfo
}

func (f *frame) clone() *frame {
	n := &frame{fn: f.fn, block: f.block, prev: f.prev, idx: f.idx, st: f.st.Clone(), panicking: f.panicking}
	n.env = make(map[ssa.Value]Value, len(f.env)+8)
	for k, v := range f.env {
		n.env[k] = v
	}
	n.defers = append([]deferred(nil), f.defers...)
	n.visits = make(map[int]int, len(f.visits))
	for k, v := range f.visits {
		n.visits[k] = v
	}
	return n
}

type abortErr struct{ msg string }

func (e *Engine) abort(format string, a ...interface{}) {
	panic(abortErr{fmt.Sprintf(format, a...)})
}

func posOf(e *Engine, p token.Pos) string {
	if !p.IsValid() {
		return ""
	}
	ps := e.Prog.Fset.Position(p)
	f := ps.Filename
	if i := strings.Index(f, "/repo/"); i >= 0 {
		f = f[i+6:]
	}
	return fmt.Sprintf("%s:%d", f, ps.Line)
}

// ExecFunc runs fn symbolically from st and returns every outcome.
func (e *Engine) ExecFunc(st *State, fn *ssa.Function, args []Value) []Outcome {
	return e.execFuncFV(st, fn, args, nil)
}

func (e *Engine) get(f *frame, v ssa.Value) Value {
	switch x := v.(type) {
	case *ssa.Const:
		return e.constVal(x)
	case *ssa.Global:
		return e.globalPtr(f.st, x)
	case *ssa.Function:
		return Func{Fn: x}
	case *ssa.Builtin:
		return Func{B: x}
	}
	r, ok := f.env[v]
	if !ok {
		e.abort("value %s (%T) not in environment of %s", v.Name(), v, f.fn)
	}
	return r
}

func (e *Engine) constVal(c *ssa.Const) Value {
	t := c.Type()
	if c.Value == nil {
		return Zero(t)
	}
	u := under(t)
	if b, ok := u.(*types.Basic); ok {
		switch {
		case b.Info()&types.IsBoolean != 0:
			return smt.BoolC(constant.BoolVal(c.Value))
		case b.Info()&types.IsString != 0:
			return Str{S: constant.StringVal(c.Value)}
		case b.Info()&types.IsInteger != 0:
			w, signed, _, _ := basicInfo(b)
			if signed {
				return smt.BVC(uint64(c.Int64()), w)
			}
			return smt.BVC(c.Uint64(), w)
		case b.Info()&types.IsFloat != 0:
			w, _, _, _ := basicInfo(b)
			f := c.Float64()
			if w == 32 {
				return smt.FP32C(float32(f))
			}
			return smt.FPC(f)
		}
	}
	e.abort("unsupported constant %v of type %v", c, t)
	return nil
}

// step executes one instruction of f. It returns the frame to continue with (or nil), extra
// forked frames, and possibly a finished outcome.
func (e *Engine) step(f *frame) (*frame, []*frame, []Outcome) {
	st := f.st
	if st.Infeasible() {
		return nil, nil, nil
	}
	st.steps++
	e.Instrs++
	if st.steps > e.Cfg.MaxSteps {
		return nil, nil, []Outcome{{St: st, Panic: &PanicInfo{Kind: "unwind", Msg: "step budget exhausted in " + f.fn.String()}}}
	}
	if f.idx >= len(f.block.Instrs) {
		e.abort("fell off block in %s", f.fn)
	}
	if f.idx == 0 {
		f.visits[f.block.Index]++
		if f.visits[f.block.Index] > e.Cfg.LoopBound {
			return nil, nil, []Outcome{{St: st, Panic: &PanicInfo{Kind: "unwind", Msg: fmt.Sprintf("loop bound %d exceeded in %s block %d", e.Cfg.LoopBound, f.fn, f.block.Index)}}}
		}
	}
	ins := f.block.Instrs[f.idx]
	f.idx++
	switch x := ins.(type) {
	case *ssa.DebugRef:
		return f, nil, nil
	case *ssa.Alloc:
		f.env[x] = e.alloc(st, Zero(x.Type().(*types.Pointer).Elem()))
	case *ssa.Phi:
		for i, p := range f.block.Preds {
			if p == f.prev {
				f.env[x] = e.get(f, x.Edges[i])
				return f, nil, nil
			}
		}
		e.abort("phi: no predecessor match in %s", f.fn)
	case *ssa.BinOp:
		return e.binop(f, x)
	case *ssa.UnOp:
		return e.unop(f, x)
	case *ssa.Convert:
		f.env[x] = e.convert(f.st, e.get(f, x.X), x.X.Type(), x.Type())
	case *ssa.ChangeType:
		f.env[x] = e.get(f, x.X)
	case *ssa.ChangeInterface:
		f.env[x] = e.get(f, x.X)
	case *ssa.MakeInterface:
		f.env[x] = Iface{T: x.X.Type(), V: e.get(f, x.X)}
	case *ssa.MakeClosure:
		b := make([]Value, len(x.Bindings))
		for i, bv := range x.Bindings {
			b[i] = e.get(f, bv)
		}
		f.env[x] = Func{Fn: x.Fn.(*ssa.Function), Bind: b}
	case *ssa.MakeMap:
		c := e.newCell()
		st.heap[c] = &MapData{}
		f.env[x] = MapRef{Cell: c}
	case *ssa.MakeSlice:
		n := e.concInt(f, x.Len, "make len")
		cp := e.concInt(f, x.Cap, "make cap")
		el := x.Type().Underlying().(*types.Slice).Elem()
		arr := &ArrayV{E: make([]Value, cp)}
		z := Zero(el)
		for i := range arr.E {
			arr.E[i] = z
		}
		c := e.newCell()
		st.heap[c] = arr
		f.env[x] = Slice{Cell: c, Lo: 0, Hi: n, Cap: cp}
	case *ssa.MakeChan:
		f.env[x] = Chan{ID: e.newCell(), Kind: "made"}
	case *ssa.FieldAddr:
		p := e.get(f, x.X).(Ptr)
		if p.IsNil() {
			return nil, nil, e.panicOut(f, "nil-deref", "field address of nil pointer", x.Pos())
		}
		f.env[x] = p.child(x.Field)
	case *ssa.Field:
		f.env[x] = e.get(f, x.X).(*StructV).F[x.Field]
	case *ssa.IndexAddr:
		return e.indexAddr(f, x)
	case *ssa.Index:
		return e.index(f, x)
	case *ssa.Lookup:
		return e.lookup(f, x)
	case *ssa.MapUpdate:
		m := e.get(f, x.Map).(MapRef)
		if m.Cell == 0 {
			return nil, nil, e.panicOut(f, "nil-map", "assignment to entry in nil map", x.Pos())
		}
		e.mapUpdate(st, m, e.get(f, x.Key), e.get(f, x.Value))
	case *ssa.Extract:
		f.env[x] = e.get(f, x.Tuple).(Tuple)[x.Index]
	case *ssa.Slice:
		return e.sliceOp(f, x)
	case *ssa.TypeAssert:
		return e.typeAssert(f, x)
	case *ssa.Range:
		f.env[x] = e.makeIter(f, x)
	case *ssa.Next:
		return e.next_(f, x)
	case *ssa.Store:
		p := e.get(f, x.Addr).(Ptr)
		if p.IsNil() {
			return nil, nil, e.panicOut(f, "nil-deref", "store through nil pointer", x.Pos())
		}
		st.Store(p, e.get(f, x.Val))
	case *ssa.Jump:
		e.gotoBlock(f, f.block.Succs[0])
	case *ssa.If:
		return e.branch(f, x)
	case *ssa.Return:
		var ret Value
		switch len(x.Results) {
		case 0:
		case 1:
			ret = e.get(f, x.Results[0])
		default:
			t := make(Tuple, len(x.Results))
			for i, r := range x.Results {
				t[i] = e.get(f, r)
			}
			ret = t
		}
		return nil, nil, []Outcome{{St: st, Ret: ret}}
	case *ssa.Panic:
		v := e.get(f, x.X)
		return e.raise(f, &PanicInfo{Kind: "explicit", Msg: "panic(" + show(v) + ")", Pos: posOf(e, x.Pos())})
	case *ssa.Call:
		return e.call(f, x)
	case *ssa.Defer:
		args := make([]Value, len(x.Call.Args))
		for i, a := range x.Call.Args {
			args[i] = e.get(f, a)
		}
		var fv Value
		if x.Call.IsInvoke() {
			fv = e.get(f, x.Call.Value)
		} else {
			fv = e.get(f, x.Call.Value)
		}
		f.defers = append(f.defers, deferred{fn: fv, args: args, call: &x.Call})
	case *ssa.RunDefers:
		return e.runDefers(f)
	case *ssa.Go:
		e.abort("go statement at %s is outside the encoding", posOf(e, x.Pos()))
	case *ssa.Select:
		return e.selectOp(f, x)
	case *ssa.Send:
		// sends are not modelled; treat as no-op (non-blocking)
	default:
		e.abort("unsupported instruction %T (%s) in %s", ins, ins, f.fn)
	}
	return f, nil, nil
}

func (e *Engine) gotoBlock(f *frame, b *ssa.BasicBlock) {
	f.prev = f.block
	f.block = b
	f.idx = 0
}

func (e *Engine) panicOut(f *frame, kind, msg string, pos token.Pos) []Outcome {
	_, _, o := e.raise(f, &PanicInfo{Kind: kind, Msg: msg, Pos: posOf(e, pos)})
	return o
}

// raise starts panic propagation in frame f: deferred calls run, then the panic leaves the frame
// (or the function's recover block runs if a deferred call recovered — recover() is not modelled,
// so the panic always propagates).
func (e *Engine) raise(f *frame, p *PanicInfo) (*frame, []*frame, []Outcome) {
	if p.Pos == "" {
		p.Pos = f.fn.String()
	}
	// run defers best-effort (only the first outcome of each deferred call is followed)
	st := f.st
	for i := len(f.defers) - 1; i >= 0; i-- {
		d := f.defers[i]
		outs := e.callValue(st, d.fn, d.args, d.call, f)
		if len(outs) > 0 && outs[0].Panic == nil {
			st = outs[0].St
		}
	}
	f.defers = nil
	return nil, nil, []Outcome{{St: st, Panic: p}}
}

func (e *Engine) concInt(f *frame, v ssa.Value, what string) int {
	t, ok := e.get(f, v).(*smt.Term)
	if !ok || !t.IsConst() {
		e.abort("%s must be concrete in %s (%s)", what, f.fn, posOf(e, v.Pos()))
	}
	return int(t.SInt())
}

// ---------- branching ----------

func (e *Engine) branch(f *frame, x *ssa.If) (*frame, []*frame, []Outcome) {
	c := e.get(f, x.Cond).(*smt.Term)
	tb, fb := f.block.Succs[0], f.block.Succs[1]
	if c.IsConst() {
		if c.IsTrue() {
			e.gotoBlock(f, tb)
		} else {
			e.gotoBlock(f, fb)
		}
		return f, nil, nil
	}
	okT := e.feasible(f.st, c)
	okF := e.feasible(f.st, smt.Not(c))
	switch {
	case okT && okF:
		g := f.clone()
		f.st.Assume(c)
		e.gotoBlock(f, tb)
		g.st.Assume(smt.Not(c))
		e.gotoBlock(g, fb)
		return f, []*frame{g}, nil
	case okT:
		f.st.Assume(c)
		e.gotoBlock(f, tb)
	case okF:
		f.st.Assume(smt.Not(c))
		e.gotoBlock(f, fb)
	default:
		return nil, nil, nil
	}
	return f, nil, nil
}

// forkOn splits f on condition c: returns (frame where c holds, frame where !c holds); either may be nil.
func (e *Engine) forkOn(f *frame, c *smt.Term) (*frame, *frame) {
	if c.IsTrue() {
		return f, nil
	}
	if c.IsFalse() {
		return nil, f
	}
	okT := e.feasible(f.st, c)
	okF := e.feasible(f.st, smt.Not(c))
	switch {
	case okT && okF:
		g := f.clone()
		f.st.Assume(c)
		g.st.Assume(smt.Not(c))
		return f, g
	case okT:
		f.st.Assume(c)
		return f, nil
	case okF:
		f.st.Assume(smt.Not(c))
		return nil, f
	}
	return nil, nil
}

// ---------- operators ----------

func (e *Engine) unop(f *frame, x *ssa.UnOp) (*frame, []*frame, []Outcome) {
	v := e.get(f, x.X)
	switch x.Op {
	case token.MUL: // load
		p, ok := v.(Ptr)
		if !ok {
			e.abort("load through %T in %s", v, f.fn)
		}
		if p.IsNil() {
			return nil, nil, e.panicOut(f, "nil-deref", "nil pointer dereference", x.Pos())
		}
		f.env[x] = f.st.Load(p)
	case token.NOT:
		f.env[x] = smt.Not(v.(*smt.Term))
	case token.SUB:
		t := v.(*smt.Term)
		if t.Sort.K == smt.KFP {
			f.env[x] = smt.FPUn(smt.OpFPNeg, t)
		} else {
			f.env[x] = smt.BVUn(smt.OpBVNeg, t)
		}
	case token.XOR:
		f.env[x] = smt.BVUn(smt.OpBVNot, v.(*smt.Term))
	case token.ARROW:
		// blocking receive: channels carry no data in this model
		ch := v.(Chan)
		_ = ch
		et := x.X.Type().Underlying().(*types.Chan).Elem()
		if x.CommaOk {
			f.env[x] = Tuple{Zero(et), smt.False}
		} else {
			f.env[x] = Zero(et)
		}
	default:
		e.abort("unsupported unop %s", x.Op)
	}
	return f, nil, nil
}

func (e *Engine) binop(f *frame, x *ssa.BinOp) (*frame, []*frame, []Outcome) {
	a, b := e.get(f, x.X), e.get(f, x.Y)
	t := x.X.Type()
	// division by zero check for integers
	if x.Op == token.QUO || x.Op == token.REM {
		if _, _, isInt, _ := basicInfo(t); isInt {
			bt := b.(*smt.Term)
			zero := smt.Eq(bt, smt.BVC(0, bt.Sort.W))
			if !zero.IsFalse() {
				bad, good := e.forkOn(f, zero)
				var out []Outcome
				if bad != nil {
					out = e.panicOut(bad, "divzero", "integer divide by zero", x.Pos())
				}
				if good == nil {
					return nil, nil, out
				}
				good.env[x] = e.binval(x.Op, a, b, t, x.Y.Type())
				return good, nil, out
			}
		}
	}
	f.env[x] = e.binval(x.Op, a, b, t, x.Y.Type())
	return f, nil, nil
}

func (e *Engine) binval(op token.Token, a, b Value, t, ty types.Type) Value {
	switch av := a.(type) {
	case *smt.Term:
		bv, ok := b.(*smt.Term)
		if !ok {
			e.abort("binop %s on term and %T", op, b)
		}
		if av.Sort.K == smt.KBool {
			switch op {
			case token.EQL:
				return smt.Eq(av, bv)
			case token.NEQ:
				return smt.Not(smt.Eq(av, bv))
			case token.AND, token.LAND:
				return smt.And(av, bv)
			case token.OR, token.LOR:
				return smt.Or(av, bv)
			}
			e.abort("bool binop %s", op)
		}
		if av.Sort.K == smt.KFP {
			switch op {
			case token.ADD:
				return smt.FPBin(smt.OpFPAdd, av, bv)
			case token.SUB:
				return smt.FPBin(smt.OpFPSub, av, bv)
			case token.MUL:
				return smt.FPBin(smt.OpFPMul, av, bv)
			case token.QUO:
				return smt.FPBin(smt.OpFPDiv, av, bv)
			case token.EQL:
				return smt.FPCmp(smt.OpFPEq, av, bv)
			case token.NEQ:
				return smt.Not(smt.FPCmp(smt.OpFPEq, av, bv))
			case token.LSS:
				return smt.FPCmp(smt.OpFPLt, av, bv)
			case token.LEQ:
				return smt.FPCmp(smt.OpFPLe, av, bv)
			case token.GTR:
				return smt.FPCmp(smt.OpFPLt, bv, av)
			case token.GEQ:
				return smt.FPCmp(smt.OpFPLe, bv, av)
			}
			e.abort("float binop %s", op)
		}
		_, signed, _, _ := basicInfo(t)
		if op == token.SHL || op == token.SHR {
			// bring the count to the operand width
			if bv.Sort.W < av.Sort.W {
				bv = smt.ZeroExt(av.Sort.W-bv.Sort.W, bv)
			} else if bv.Sort.W > av.Sort.W {
				bv = smt.Extract(av.Sort.W-1, 0, bv)
			}
			if op == token.SHL {
				return smt.BVBin(smt.OpBVShl, av, bv)
			}
			if signed {
				return smt.BVBin(smt.OpBVAShr, av, bv)
			}
			return smt.BVBin(smt.OpBVLShr, av, bv)
		}
		switch op {
		case token.ADD:
			return smt.BVBin(smt.OpBVAdd, av, bv)
		case token.SUB:
			return smt.BVBin(smt.OpBVSub, av, bv)
		case token.MUL:
			return smt.BVBin(smt.OpBVMul, av, bv)
		case token.QUO:
			if signed {
				return smt.BVBin(smt.OpBVSDiv, av, bv)
			}
			return smt.BVBin(smt.OpBVUDiv, av, bv)
		case token.REM:
			if signed {
				return smt.BVBin(smt.OpBVSRem, av, bv)
			}
			return smt.BVBin(smt.OpBVURem, av, bv)
		case token.AND:
			return smt.BVBin(smt.OpBVAnd, av, bv)
		case token.OR:
			return smt.BVBin(smt.OpBVOr, av, bv)
		case token.XOR:
			return smt.BVBin(smt.OpBVXor, av, bv)
		case token.AND_NOT:
			return smt.BVBin(smt.OpBVAnd, av, smt.BVUn(smt.OpBVNot, bv))
		case token.EQL:
			return smt.Eq(av, bv)
		case token.NEQ:
			return smt.Not(smt.Eq(av, bv))
		case token.LSS:
			if signed {
				return smt.BVCmp(smt.OpBVSlt, av, bv)
			}
			return smt.BVCmp(smt.OpBVUlt, av, bv)
		case token.LEQ:
			if signed {
				return smt.BVCmp(smt.OpBVSle, av, bv)
			}
			return smt.BVCmp(smt.OpBVUle, av, bv)
		case token.GTR:
			if signed {
				return smt.BVCmp(smt.OpBVSlt, bv, av)
			}
			return smt.BVCmp(smt.OpBVUlt, bv, av)
		case token.GEQ:
			if signed {
				return smt.BVCmp(smt.OpBVSle, bv, av)
			}
			return smt.BVCmp(smt.OpBVUle, bv, av)
		}
		e.abort("int binop %s", op)
	case Str:
		bs := b.(Str)
		switch op {
		case token.ADD:
			if av.Code != nil || bs.Code != nil {
				return Str{S: "<concat-of-symbolic>"}
			}
			return Str{S: av.S + bs.S}
		case token.EQL:
			return e.strEq(av, bs)
		case token.NEQ:
			return smt.Not(e.strEq(av, bs))
		case token.LSS:
			if av.Code == nil && bs.Code == nil {
				return smt.BoolC(av.S < bs.S)
			}
		case token.GTR:
			if av.Code == nil && bs.Code == nil {
				return smt.BoolC(av.S > bs.S)
			}
		}
		e.abort("string binop %s on symbolic strings", op)
	default:
		eq := e.valEq(a, b)
		switch op {
		case token.EQL:
			return eq
		case token.NEQ:
			return smt.Not(eq)
		}
		e.abort("binop %s on %T", op, a)
	}
	return nil
}

// strCode gives the candidate index of a concrete string in the symbolic-id family, or -1.
func (e *Engine) strCode(s string) int {
	if s == "" {
		return 0
	}
	if c, ok := e.strCodes[s]; ok {
		return c
	}
	return -1
}

func (e *Engine) strEq(a, b Str) *smt.Term {
	if a.Fmt != nil || b.Fmt != nil {
		return tmplEq(a, b)
	}
	if a.Code == nil && b.Code == nil {
		return smt.BoolC(a.S == b.S)
	}
	ta, tb := a.Code, b.Code
	if ta == nil {
		c := e.strCode(a.S)
		if c < 0 {
			return smt.False
		}
		ta = smt.BVC(uint64(c), tb.Sort.W)
	}
	if tb == nil {
		c := e.strCode(b.S)
		if c < 0 {
			return smt.False
		}
		tb = smt.BVC(uint64(c), ta.Sort.W)
	}
	return smt.Eq(ta, tb)
}

func (e *Engine) valEq(a, b Value) *smt.Term {
	switch av := a.(type) {
	case *smt.Term:
		bv := b.(*smt.Term)
		if av.Sort.K == smt.KFP {
			return smt.FPCmp(smt.OpFPEq, av, bv)
		}
		return smt.Eq(av, bv)
	case Str:
		return e.strEq(av, b.(Str))
	case Ptr:
		return smt.BoolC(ptrEq(av, b.(Ptr)))
	case Slice:
		bs := b.(Slice)
		return smt.BoolC(av.Cell == 0 && bs.Cell == 0)
	case MapRef:
		return smt.BoolC(av.Cell == b.(MapRef).Cell)
	case Chan:
		return smt.BoolC(av.ID == b.(Chan).ID)
	case Func:
		bf := b.(Func)
		return smt.BoolC(av.Fn == nil && av.B == nil && bf.Fn == nil && bf.B == nil)
	case Iface:
		bi := b.(Iface)
		if av.T == nil || bi.T == nil {
			return smt.BoolC(av.T == nil && bi.T == nil)
		}
		if !types.Identical(av.T, bi.T) {
			return smt.False
		}
		return e.valEq(av.V, bi.V)
	case *StructV:
		bs := b.(*StructV)
		r := smt.True
		for i := range av.F {
			r = smt.And(r, e.valEq(av.F[i], bs.F[i]))
		}
		return r
	case *ArrayV:
		bs := b.(*ArrayV)
		r := smt.True
		for i := range av.E {
			r = smt.And(r, e.valEq(av.E[i], bs.E[i]))
		}
		return r
	case Opaque:
		return smt.False
	}
	e.abort("equality on %T", a)
	return nil
}

func (e *Engine) convert(st *State, v Value, from, to types.Type) Value {
	fw, fsigned, fint, ffloat := basicInfo(from)
	tw, tsigned, tint, tfloat := basicInfo(to)
	switch {
	case fint && tint:
		t := v.(*smt.Term)
		if tw == fw {
			return t
		}
		if tw < fw {
			return smt.Extract(tw-1, 0, t)
		}
		if fsigned {
			return smt.SignExt(tw-fw, t)
		}
		return smt.ZeroExt(tw-fw, t)
	case fint && tfloat:
		t := v.(*smt.Term)
		s := smt.FP64
		if tw == 32 {
			s = smt.FP32
		}
		if fsigned {
			return smt.SBVToFP(t, s)
		}
		return smt.UBVToFP(t, s)
	case ffloat && tint:
		_ = tsigned
		return smt.GoFloatToInt(v.(*smt.Term), tw)
	case ffloat && tfloat:
		s := smt.FP64
		if tw == 32 {
			s = smt.FP32
		}
		return smt.FPToFP(v.(*smt.Term), s)
	}
	if isString(from) && isString(to) {
		return v
	}
	// string <-> []byte / []rune (concrete only)
	if isString(to) {
		if sl, ok := v.(Slice); ok {
			if sl.Cell == 0 {
				return Str{}
			}
			arr := st.heap[sl.Cell].(*ArrayV)
			b := make([]byte, 0, sl.Hi-sl.Lo)
			for _, el := range arr.E[sl.Lo:sl.Hi] {
				t, ok := el.(*smt.Term)
				if !ok || !t.IsConst() {
					e.abort("conversion of a symbolic []byte to string is not modelled")
				}
				b = append(b, byte(t.U))
			}
			return Str{S: string(b)}
		}
		if t, ok := v.(*smt.Term); ok && t.IsConst() {
			return Str{S: string(rune(t.SInt()))}
		}
	}
	if isString(from) {
		if sl, ok := under(to).(*types.Slice); ok {
			txt, conc := v.(Str)
			if w, _, isInt, _ := basicInfo(sl.Elem()); conc && isInt && w == 8 && txt.Code == nil && txt.Num == nil && txt.FNum == nil && txt.Fmt == nil {
				el := make([]Value, len(txt.S))
				for i := 0; i < len(txt.S); i++ {
					el[i] = smt.BVC(uint64(txt.S[i]), 8)
				}
				cell := e.newCell()
				st.heap[cell] = &ArrayV{E: el}
				return Slice{Cell: cell, Lo: 0, Hi: len(el), Cap: len(el)}
			}
			e.abort("conversion string->slice is only modelled for concrete strings to []byte")
		}
	}
	// pointer / named conversions
	return v
}

// ---------- aggregates ----------

func (e *Engine) sliceLen(v Value) int {
	switch x := v.(type) {
	case Slice:
		return x.Hi - x.Lo
	}
	e.abort("len of %T", v)
	return 0
}

func (e *Engine) indexAddr(f *frame, x *ssa.IndexAddr) (*frame, []*frame, []Outcome) {
	base := e.get(f, x.X)
	idx := e.get(f, x.Index).(*smt.Term)
	if idx.Sort.W != 64 {
		_, s, _, _ := basicInfo(x.Index.Type())
		if s {
			idx = smt.SignExt(64-idx.Sort.W, idx)
		} else {
			idx = smt.ZeroExt(64-idx.Sort.W, idx)
		}
	}
	var cell, lo, n int
	var path []int
	switch b := base.(type) {
	case Slice:
		cell, lo, n = b.Cell, b.Lo, b.Hi-b.Lo
	case Ptr: // pointer to array
		if b.IsNil() {
			return nil, nil, e.panicOut(f, "nil-deref", "index of nil array pointer", x.Pos())
		}
		arr := f.st.Load(b).(*ArrayV)
		cell, lo, n, path = b.Cell, 0, len(arr.E), b.Path
	default:
		e.abort("indexaddr on %T", base)
	}
	mkptr := func(i int) Ptr {
		p := Ptr{Cell: cell, Path: path}
		return p.child(lo + i)
	}
	if idx.IsConst() {
		i := int(idx.SInt())
		if i < 0 || i >= n {
			return nil, nil, e.panicOut(f, "index", fmt.Sprintf("index out of range [%d] with length %d", i, n), x.Pos())
		}
		f.env[x] = mkptr(i)
		return f, nil, nil
	}
	// symbolic index: out-of-range panic path plus one path per element
	var forks []*frame
	var out []Outcome
	oob := smt.Or(smt.Slt(idx, smt.IntC(0)), smt.Sle(smt.IntC(int64(n)), idx))
	bad, good := e.forkOn(f, oob)
	if bad != nil {
		out = e.panicOut(bad, "index", fmt.Sprintf("index out of range [symbolic] with length %d", n), x.Pos())
	}
	if good == nil {
		return nil, nil, out
	}
	cur := good
	for i := 0; i < n && cur != nil; i++ {
		hit, rest := e.forkOn(cur, smt.Eq(idx, smt.IntC(int64(i))))
		if hit != nil {
			hit.env[x] = mkptr(i)
			forks = append(forks, hit)
		}
		cur = rest
	}
	return nil, forks, out
}

func (e *Engine) index(f *frame, x *ssa.Index) (*frame, []*frame, []Outcome) {
	base := e.get(f, x.X)
	idx := e.get(f, x.Index).(*smt.Term)
	if !idx.IsConst() {
		e.abort("symbolic index into array/string value in %s", f.fn)
	}
	i := int(idx.SInt())
	switch b := base.(type) {
	case *ArrayV:
		if i < 0 || i >= len(b.E) {
			return nil, nil, e.panicOut(f, "index", "index out of range", x.Pos())
		}
		f.env[x] = b.E[i]
	case Str:
		if b.Code != nil {
			e.abort("index into symbolic string")
		}
		if i < 0 || i >= len(b.S) {
			return nil, nil, e.panicOut(f, "index", "string index out of range", x.Pos())
		}
		f.env[x] = smt.BVC(uint64(b.S[i]), 8)
	default:
		e.abort("index on %T", base)
	}
	return f, nil, nil
}

func (e *Engine) sliceOp(f *frame, x *ssa.Slice) (*frame, []*frame, []Outcome) {
	base := e.get(f, x.X)
	geti := func(v ssa.Value, def int) int {
		if v == nil {
			return def
		}
		return e.concInt(f, v, "slice bound")
	}
	switch b := base.(type) {
	case Slice:
		lo := geti(x.Low, 0)
		hi := geti(x.High, b.Hi-b.Lo)
		mx := geti(x.Max, b.Cap)
		if lo < 0 || hi < lo || hi > b.Cap || mx > b.Cap {
			return nil, nil, e.panicOut(f, "index", "slice bounds out of range", x.Pos())
		}
		if b.Cell == 0 {
			f.env[x] = Slice{}
			return f, nil, nil
		}
		f.env[x] = Slice{Cell: b.Cell, Lo: b.Lo + lo, Hi: b.Lo + hi, Cap: mx}
	case Str:
		if b.Code != nil {
			e.abort("slicing symbolic string")
		}
		lo := geti(x.Low, 0)
		hi := geti(x.High, len(b.S))
		if lo < 0 || hi < lo || hi > len(b.S) {
			return nil, nil, e.panicOut(f, "index", "string slice bounds out of range", x.Pos())
		}
		f.env[x] = Str{S: b.S[lo:hi]}
	case Ptr: // *array
		if b.IsNil() {
			return nil, nil, e.panicOut(f, "nil-deref", "slice of nil array pointer", x.Pos())
		}
		if len(b.Path) != 0 {
			e.abort("slicing an embedded array is not modelled")
		}
		arr := f.st.Load(b).(*ArrayV)
		lo := geti(x.Low, 0)
		hi := geti(x.High, len(arr.E))
		f.env[x] = Slice{Cell: b.Cell, Lo: lo, Hi: hi, Cap: len(arr.E)}
	default:
		e.abort("slice op on %T", base)
	}
	return f, nil, nil
}

func implements(t types.Type, it *types.Interface) bool {
	return types.Implements(t, it)
}

func (e *Engine) typeAssert(f *frame, x *ssa.TypeAssert) (*frame, []*frame, []Outcome) {
	v := e.get(f, x.X).(Iface)
	ok := false
	var res Value
	if it, isI := under(x.AssertedType).(*types.Interface); isI {
		if v.T != nil && implements(v.T, it) {
			ok = true
			res = v
		} else {
			res = Iface{}
		}
	} else {
		if v.T != nil && types.Identical(v.T, x.AssertedType) {
			ok = true
			res = v.V
		} else {
			res = Zero(x.AssertedType)
		}
	}
	if x.CommaOk {
		f.env[x] = Tuple{res, smt.BoolC(ok)}
		return f, nil, nil
	}
	if !ok {
		dyn := "nil"
		if v.T != nil {
			dyn = v.T.String()
		}
		return nil, nil, e.panicOut(f, "typeassert", fmt.Sprintf("interface conversion: interface is %s, not %s", dyn, x.AssertedType), x.Pos())
	}
	f.env[x] = res
	return f, nil, nil
}

// tmplEq compares template strings (S with \x00 placeholders for decimal integers).
func tmplEq(a, b Str) *smt.Term {
	if a.Fmt != nil && b.Fmt != nil {
		if a.S != b.S || len(a.Fmt) != len(b.Fmt) {
			return smt.False // different shapes: different device files in every use made of this
		}
		r := smt.True
		for i := range a.Fmt {
			r = smt.And(r, smt.Eq(a.Fmt[i], b.Fmt[i]))
		}
		return r
	}
	t, c := a, b
	if t.Fmt == nil {
		t, c = b, a
	}
	if c.Code != nil || c.Num != nil || c.FNum != nil {
		return smt.False
	}
	// concrete string against a template: match literal pieces, read the integers
	pieces := strings.Split(t.S, "\x00")
	rest := c.S
	r := smt.True
	for i, p := range pieces {
		if !strings.HasPrefix(rest, p) {
			return smt.False
		}
		rest = rest[len(p):]
		if i == len(pieces)-1 {
			break
		}
		j := 0
		for j < len(rest) && rest[j] >= '0' && rest[j] <= '9' {
			j++
		}
		if j == 0 {
			return smt.False
		}
		n, err := strconv.ParseInt(rest[:j], 10, 64)
		if err != nil {
			return smt.False
		}
		r = smt.And(r, smt.Eq(t.Fmt[i], smt.IntC(n)))
		rest = rest[j:]
	}
	if rest != "" {
		return smt.False
	}
	return r
}
