// Package symex: a symbolic (concolic) interpreter for go/ssa.
package symex

import (
	"fmt"
	"go/types"
	"strings"

	"fgsym/smt"
)

// Value is one of: *smt.Term (bool/int/float scalar), Str, *StructV, *ArrayV, Ptr, Slice,
// MapRef, Iface, Func, Tuple, Chan, IterV, Opaque.
type Value interface{}

// Str is a string: concrete (Code == nil) or a symbolic identifier chosen from a finite
// candidate family (Code = index term, 0 = empty string).
type Str struct {
	S    string
	Code *smt.Term
	Num  *smt.Term   // when set: the decimal rendering of this 64-bit integer term
	FNum *smt.Term   // when set: a text that strconv.ParseFloat parses to this float64 term (NaN/Inf included)
	Fmt  []*smt.Term // when set: S is a template in which each \x00 stands for the decimal rendering of the next integer term
}

type StructV struct{ F []Value }
type ArrayV struct{ E []Value }

type Ptr struct {
	Cell int // 0 = nil
	Path []int
}

type Slice struct{ Cell, Lo, Hi, Cap int }

type MapRef struct{ Cell int }

type MapEnt struct {
	K, V Value
	Live *smt.Term
}
type MapData struct{ Ent []MapEnt }

type Iface struct {
	T types.Type // nil = nil interface
	V Value
}

type Tuple []Value

type Chan struct {
	ID   int
	Kind string
}

type IterV struct{ Cell int }
type IterData struct {
	Ent []MapEnt
	Pos int
	Str string
	IsS bool
}

// Opaque is a value the engine does not track (results of no-op'ed externals).
type Opaque struct{ What string }

func (p Ptr) IsNil() bool { return p.Cell == 0 }

func ptrEq(a, b Ptr) bool {
	if a.Cell != b.Cell || len(a.Path) != len(b.Path) {
		return false
	}
	for i := range a.Path {
		if a.Path[i] != b.Path[i] {
			return false
		}
	}
	return true
}

func (p Ptr) child(i int) Ptr {
	np := make([]int, len(p.Path)+1)
	copy(np, p.Path)
	np[len(p.Path)] = i
	return Ptr{p.Cell, np}
}

// ---------- type helpers ----------

func under(t types.Type) types.Type {
	for {
		u := types.Unalias(t).Underlying()
		if u == t {
			return u
		}
		t = u
	}
}

func basicInfo(t types.Type) (width int, signed bool, isInt bool, isFloat bool) {
	b, ok := under(t).(*types.Basic)
	if !ok {
		return 0, false, false, false
	}
	switch b.Kind() {
	case types.Int, types.Int64, types.UntypedInt:
		return 64, true, true, false
	case types.Uint, types.Uint64, types.Uintptr:
		return 64, false, true, false
	case types.Int32, types.UntypedRune:
		return 32, true, true, false
	case types.Uint32:
		return 32, false, true, false
	case types.Int16:
		return 16, true, true, false
	case types.Uint16:
		return 16, false, true, false
	case types.Int8:
		return 8, true, true, false
	case types.Uint8:
		return 8, false, true, false
	case types.Float64, types.UntypedFloat:
		return 64, true, false, true
	case types.Float32:
		return 32, true, false, true
	}
	return 0, false, false, false
}

func isString(t types.Type) bool {
	b, ok := under(t).(*types.Basic)
	return ok && b.Info()&types.IsString != 0
}

func isBool(t types.Type) bool {
	b, ok := under(t).(*types.Basic)
	return ok && b.Info()&types.IsBoolean != 0
}

// Zero returns the zero value of a type.
func Zero(t types.Type) Value {
	switch u := under(t).(type) {
	case *types.Basic:
		if u.Info()&types.IsBoolean != 0 {
			return smt.False
		}
		if u.Info()&types.IsString != 0 {
			return Str{}
		}
		if u.Kind() == types.UnsafePointer {
			return Ptr{}
		}
		if u.Kind() == types.UntypedNil {
			return Ptr{}
		}
		if u.Kind() == types.Invalid {
			return Opaque{What: "unused"}
		}
		w, _, isInt, isFloat := basicInfo(u)
		if isInt {
			return smt.BVC(0, w)
		}
		if isFloat {
			if w == 32 {
				return smt.FP32C(0)
			}
			return smt.FPC(0)
		}
		panic(fmt.Sprintf("zero: unsupported basic %v", u))
	case *types.Pointer:
		return Ptr{}
	case *types.Slice:
		return Slice{}
	case *types.Map:
		return MapRef{}
	case *types.Chan:
		return Chan{}
	case *types.Signature:
		return Func{}
	case *types.Interface:
		return Iface{}
	case *types.Struct:
		f := make([]Value, u.NumFields())
		for i := range f {
			f[i] = Zero(u.Field(i).Type())
		}
		return &StructV{f}
	case *types.Array:
		n := int(u.Len())
		e := make([]Value, n)
		if n > 0 {
			z := Zero(u.Elem())
			for i := range e {
				e[i] = z
			}
		}
		return &ArrayV{e}
	case *types.Tuple:
		tu := make(Tuple, u.Len())
		for i := range tu {
			tu[i] = Zero(u.At(i).Type())
		}
		return tu
	}
	panic(fmt.Sprintf("zero: unsupported type %v (%T)", t, under(t)))
}

func show(v Value) string {
	switch x := v.(type) {
	case nil:
		return "<nil>"
	case *smt.Term:
		if x.IsConst() {
			switch x.Sort.K {
			case smt.KBool:
				return fmt.Sprint(x.U == 1)
			case smt.KBV:
				return fmt.Sprint(x.SInt())
			default:
				return fmt.Sprint(x.F)
			}
		}
		return x.String()
	case Str:
		if x.Code != nil {
			return "symstr(" + x.Code.String() + ")"
		}
		return fmt.Sprintf("%q", x.S)
	case *StructV:
		var parts []string
		for _, f := range x.F {
			parts = append(parts, show(f))
		}
		return "{" + strings.Join(parts, ",") + "}"
	case *ArrayV:
		return fmt.Sprintf("[%d]...", len(x.E))
	case Ptr:
		return fmt.Sprintf("&c%d%v", x.Cell, x.Path)
	case Slice:
		return fmt.Sprintf("slice(c%d[%d:%d])", x.Cell, x.Lo, x.Hi)
	case Iface:
		if x.T == nil {
			return "nil-iface"
		}
		return fmt.Sprintf("iface(%v:%s)", x.T, show(x.V))
	case Tuple:
		var parts []string
		for _, f := range x {
			parts = append(parts, show(f))
		}
		return "(" + strings.Join(parts, ",") + ")"
	}
	return fmt.Sprintf("%T", v)
}
