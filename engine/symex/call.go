package symex

import (
	"fmt"
	"go/types"
	"regexp"
	"strings"
	"time"

	"golang.org/x/tools/go/ssa"

	"fgsym/smt"
)

type Func struct {
	Fn   *ssa.Function
	Bind []Value
	B    *ssa.Builtin
	// bound method value: receiver pre-applied
	Recv Value
	Has  bool
}

// CallCtx gives intercepts access to the call site.
type CallCtx struct {
	E      *Engine
	Fn     *ssa.Function
	Common *ssa.CallCommon
	Frame  *frame
}

// Intercept models a function natively. It owns st and returns the outcomes.
type Intercept func(c *CallCtx, st *State, args []Value) []Outcome

func one(st *State, ret Value) []Outcome { return []Outcome{{St: st, Ret: ret}} }

var typeArgsRe = regexp.MustCompile(`\[[^\[\]]*\]`)

// funcKey names a function for the intercept table; type arguments and type parameters of
// generic functions and methods are stripped: "(pkg.T[K,V]).Set" and "(pkg.T[string,X]).Set[...]"
// both become "(pkg.T).Set".
func funcKey(fn *ssa.Function) string {
	s := fn.String()
	if o := fn.Origin(); o != nil {
		s = o.String()
	}
	for strings.Contains(s, "[") {
		n := typeArgsRe.ReplaceAllString(s, "")
		if n == s {
			break
		}
		s = n
	}
	return s
}

func (f *frame) cloneWith(st *State) *frame {
	n := &frame{fn: f.fn, block: f.block, prev: f.prev, idx: f.idx, st: st, panicking: f.panicking}
	n.env = make(map[ssa.Value]Value, len(f.env)+8)
	for k, v := range f.env {
		n.env[k] = v
	}
	n.defers = append([]deferred(nil), f.defers...)
	n.visits = make(map[int]int, len(f.visits))
	for k, v := range f.visits {
		n.visits[k] = v
	}
	return n
}

func (e *Engine) call(f *frame, x *ssa.Call) (*frame, []*frame, []Outcome) {
	c := x.Common()
	args := make([]Value, 0, len(c.Args)+1)
	var fv Value
	if c.IsInvoke() {
		recv, ok := e.get(f, c.Value).(Iface)
		if !ok {
			e.abort("invoke on %T", e.get(f, c.Value))
		}
		if recv.T == nil {
			return nil, nil, e.panicOut(f, "nil-deref", "method "+c.Method.Name()+" called on nil interface", x.Pos())
		}
		m := e.lookupMethod(recv.T, c.Method)
		if m == nil {
			e.abort("no method %s on %v", c.Method.Name(), recv.T)
		}
		fv = Func{Fn: m}
		args = append(args, recv.V)
	} else {
		fv = e.get(f, c.Value)
	}
	for _, a := range c.Args {
		args = append(args, e.get(f, a))
	}
	prefix := len(f.st.pc)
	outs := e.callValue(f.st, fv, args, c, f)
	if e.Cfg.Merge && len(outs) > 1 {
		outs = e.mergeOutcomes(prefix, outs)
	}
	var next *frame
	var forks []*frame
	var res []Outcome
	for i, o := range outs {
		var g *frame
		if i == len(outs)-1 {
			g = f
			g.st = o.St
		} else {
			g = f.cloneWith(o.St)
		}
		if o.Panic != nil {
			_, _, po := e.raise(g, o.Panic)
			res = append(res, po...)
			continue
		}
		if o.Ret != nil {
			g.env[x] = o.Ret
		} else if x.Type() != nil {
			if tu, ok := x.Type().(*types.Tuple); !ok || tu.Len() > 0 {
				g.env[x] = Zero(x.Type())
			}
		}
		if next == nil {
			next = g
		} else {
			forks = append(forks, g)
		}
	}
	return next, forks, res
}

func (e *Engine) lookupMethod(t types.Type, m *types.Func) *ssa.Function {
	ms := e.Prog.MethodSets.MethodSet(t)
	sel := ms.Lookup(m.Pkg(), m.Name())
	if sel == nil {
		return nil
	}
	return e.Prog.MethodValue(sel)
}

// callValue dispatches a call on a function value.
func (e *Engine) callValue(st *State, fv Value, args []Value, c *ssa.CallCommon, f *frame) []Outcome {
	fn, ok := fv.(Func)
	if !ok {
		if iv, isI := fv.(Iface); isI && c != nil && c.IsInvoke() {
			// deferred invoke
			if iv.T == nil {
				return []Outcome{{St: st, Panic: &PanicInfo{Kind: "nil-deref", Msg: "deferred method on nil interface"}}}
			}
			m := e.lookupMethod(iv.T, c.Method)
			return e.callValue(st, Func{Fn: m}, append([]Value{iv.V}, args...), nil, f)
		}
		e.abort("call of %T", fv)
	}
	if fn.B != nil {
		return e.builtin(st, fn.B, args, c, f)
	}
	if fn.Fn == nil {
		return []Outcome{{St: st, Panic: &PanicInfo{Kind: "nil-deref", Msg: "call of nil function"}}}
	}
	if fn.Has {
		args = append([]Value{fn.Recv}, args...)
	}
	if len(fn.Bind) > 0 {
		return e.execWithBindings(st, fn, args)
	}
	return e.callFn(st, fn.Fn, args, c, f)
}

func (e *Engine) execWithBindings(st *State, fn Func, args []Value) []Outcome {
	return e.execFuncFV(st, fn.Fn, args, fn.Bind)
}

func (e *Engine) callFn(st *State, fn *ssa.Function, args []Value, c *ssa.CallCommon, f *frame) []Outcome {
	key := funcKey(fn)
	if ic, ok := e.icpt[key]; ok {
		e.Stubs[key] = true
		return ic(&CallCtx{E: e, Fn: fn, Common: c, Frame: f}, st, args)
	}
	// wrappers and bound methods synthesised by ssa have bodies; externals do not
	if fn.Blocks == nil {
		if e.lenient(fn) {
			e.Stubs[key+" (no-op)"] = true
			return one(st, e.zeroResults(fn))
		}
		e.abort("no body and no model for %s (called from %s)", key, callerName(f))
	}
	if fn.Pkg != nil && e.noopPkg(fn.Pkg.Pkg.Path()) {
		e.Stubs[key+" (no-op)"] = true
		return one(st, e.zeroResults(fn))
	}
	if fn.Name() == "init" && fn.Pkg != nil && !strings.HasPrefix(fn.Pkg.Pkg.Path(), RepoMod) {
		return one(st, nil)
	}
	return e.execFuncFV(st, fn, args, nil)
}

func callerName(f *frame) string {
	if f == nil {
		return "?"
	}
	return f.fn.String()
}

func (e *Engine) zeroResults(fn *ssa.Function) Value {
	res := fn.Signature.Results()
	switch res.Len() {
	case 0:
		return nil
	case 1:
		return Zero(res.At(0).Type())
	}
	return Zero(res)
}

// packages whose calls are dropped entirely (logging, metrics, notifications, CLI wiring)
var noopPkgs = []string{
	"github.com/pterm/pterm", "github.com/prometheus/", "github.com/spf13/cobra", "github.com/spf13/viper",
	"github.com/spf13/pflag", "log", "github.com/markusressel/fan2go/internal/statistics",
}

func (e *Engine) noopPkg(path string) bool {
	for _, p := range noopPkgs {
		if strings.HasPrefix(path, p) {
			return true
		}
	}
	return false
}

func (e *Engine) lenient(fn *ssa.Function) bool {
	if fn.Pkg == nil {
		return false
	}
	return e.noopPkg(fn.Pkg.Pkg.Path())
}

func (e *Engine) execFuncFV(st *State, fn *ssa.Function, args []Value, bind []Value) []Outcome {
	if fn.Blocks == nil {
		e.abort("no body and no model for %s", fn.String())
	}
	if st.depth > e.Cfg.MaxDepth {
		return []Outcome{{St: st, Panic: &PanicInfo{Kind: "unwind", Msg: "recursion depth exceeded in " + fn.String()}}}
	}
	e.Funcs[funcKey(fn)] = true
	st.depth++
	fr := &frame{fn: fn, env: make(map[ssa.Value]Value, 32), block: fn.Blocks[0], st: st, visits: map[int]int{}}
	if len(args) != len(fn.Params) {
		e.abort("arity mismatch calling %s: %d args for %d params", fn, len(args), len(fn.Params))
	}
	for i, p := range fn.Params {
		fr.env[p] = args[i]
	}
	for i, fv := range fn.FreeVars {
		fr.env[fv] = bind[i]
	}
	work := []*frame{fr}
	var outs []Outcome
	for len(work) > 0 {
		f := work[len(work)-1]
		work = work[:len(work)-1]
		for f != nil {
			next, forks, out := e.step(f)
			for i := range out {
				out[i].St.depth--
				outs = append(outs, out[i])
			}
			work = append(work, forks...)
			f = next
		}
	}
	return outs
}

// ---------- defers ----------

func (e *Engine) runDefers(f *frame) (*frame, []*frame, []Outcome) {
	if len(f.defers) == 0 {
		return f, nil, nil
	}
	d := f.defers[len(f.defers)-1]
	f.defers = f.defers[:len(f.defers)-1]
	f.idx-- // re-execute RunDefers until the list is empty
	outs := e.callValue(f.st, d.fn, d.args, d.call, f)
	var next *frame
	var forks []*frame
	var res []Outcome
	for i, o := range outs {
		var g *frame
		if i == len(outs)-1 {
			g = f
			g.st = o.St
		} else {
			g = f.cloneWith(o.St)
		}
		if o.Panic != nil {
			_, _, po := e.raise(g, o.Panic)
			res = append(res, po...)
			continue
		}
		if next == nil {
			next = g
		} else {
			forks = append(forks, g)
		}
	}
	return next, forks, res
}

// ---------- select ----------

// selectOp: a blocking select is a nondeterministic choice among its cases. Receives from a
// channel of kind "ticker" are limited to Cfg.SelectTicks per path (ghost budget); when the
// budget is used up only the other cases remain.
func (e *Engine) selectOp(f *frame, x *ssa.Select) (*frame, []*frame, []Outcome) {
	st := f.st
	budgetCell := e.namedCell(st, "select.ticks", func() Value { return smt.IntC(int64(e.Cfg.SelectTicks)) })
	budget := int(st.heap[budgetCell].(*smt.Term).SInt())
	var frames []*frame
	n := len(x.States)
	for i, s := range x.States {
		ch, _ := e.get(f, s.Chan).(Chan)
		if ch.Kind == "ticker" && budget <= 0 {
			continue
		}
		if ch.Kind == "never" {
			continue
		}
		g := f.clone()
		if ch.Kind == "ticker" {
			g.st.heap[budgetCell] = smt.IntC(int64(budget - 1))
		}
		g.st.choices = append(g.st.choices, ChoiceRec{Name: "select@" + posOf(e, x.Pos()), V: i})
		tu := Tuple{smt.IntC(int64(i)), smt.True}
		for _, s2 := range x.States {
			if s2.Dir == types.RecvOnly {
				tu = append(tu, Zero(s2.Chan.Type().Underlying().(*types.Chan).Elem()))
			}
		}
		g.env[x] = tu
		frames = append(frames, g)
	}
	if !x.Blocking {
		g := f.clone()
		tu := Tuple{smt.IntC(-1), smt.False}
		for _, s2 := range x.States {
			if s2.Dir == types.RecvOnly {
				tu = append(tu, Zero(s2.Chan.Type().Underlying().(*types.Chan).Elem()))
			}
		}
		g.env[x] = tu
		frames = append(frames, g)
	}
	_ = n
	if len(frames) == 0 {
		return nil, nil, nil // blocks forever: path ends without outcome
	}
	return frames[0], frames[1:], nil
}

// ---------- builtins ----------

func (e *Engine) builtin(st *State, b *ssa.Builtin, args []Value, c *ssa.CallCommon, f *frame) []Outcome {
	switch b.Name() {
	case "len":
		switch x := args[0].(type) {
		case Slice:
			return one(st, smt.IntC(int64(x.Hi-x.Lo)))
		case Str:
			if x.Code != nil {
				// symbolic ids are either empty (code 0) or non-empty
				return one(st, smt.Ite(smt.Eq(x.Code, smt.BVC(0, x.Code.Sort.W)), smt.IntC(0), smt.IntC(4)))
			}
			return one(st, smt.IntC(int64(len(x.S))))
		case MapRef:
			if x.Cell == 0 {
				return one(st, smt.IntC(0))
			}
			md := st.heap[x.Cell].(*MapData)
			n := smt.IntC(0)
			for _, en := range md.Ent {
				n = smt.Add(n, smt.Ite(en.Live, smt.IntC(1), smt.IntC(0)))
			}
			return one(st, n)
		case *ArrayV:
			return one(st, smt.IntC(int64(len(x.E))))
		case Ptr:
			arr := st.Load(x).(*ArrayV)
			return one(st, smt.IntC(int64(len(arr.E))))
		case Chan:
			return one(st, smt.IntC(0))
		}
		e.abort("len of %T", args[0])
	case "cap":
		switch x := args[0].(type) {
		case Slice:
			return one(st, smt.IntC(int64(x.Cap-x.Lo)))
		}
		e.abort("cap of %T", args[0])
	case "append":
		s := args[0].(Slice)
		var add []Value
		switch t := args[1].(type) {
		case Slice:
			if t.Cell != 0 {
				arr := st.heap[t.Cell].(*ArrayV)
				add = append(add, arr.E[t.Lo:t.Hi]...)
			}
		case Str:
			for i := 0; i < len(t.S); i++ {
				add = append(add, smt.BVC(uint64(t.S[i]), 8))
			}
		default:
			e.abort("append of %T", args[1])
		}
		if len(add) == 0 {
			return one(st, s)
		}
		var old []Value
		if s.Cell != 0 {
			old = st.heap[s.Cell].(*ArrayV).E[s.Lo:s.Hi]
		}
		// always reallocate (aliasing through spare capacity is not modelled)
		ne := make([]Value, 0, len(old)+len(add))
		ne = append(ne, old...)
		ne = append(ne, add...)
		cell := e.newCell()
		st.heap[cell] = &ArrayV{E: ne}
		return one(st, Slice{Cell: cell, Lo: 0, Hi: len(ne), Cap: len(ne)})
	case "copy":
		d := args[0].(Slice)
		var src []Value
		switch t := args[1].(type) {
		case Slice:
			if t.Cell != 0 {
				src = st.heap[t.Cell].(*ArrayV).E[t.Lo:t.Hi]
			}
		default:
			e.abort("copy from %T", args[1])
		}
		n := d.Hi - d.Lo
		if len(src) < n {
			n = len(src)
		}
		if n > 0 {
			arr := st.heap[d.Cell].(*ArrayV)
			ne := make([]Value, len(arr.E))
			copy(ne, arr.E)
			copy(ne[d.Lo:d.Lo+n], src[:n])
			st.heap[d.Cell] = &ArrayV{E: ne}
		}
		return one(st, smt.IntC(int64(n)))
	case "delete":
		m := args[0].(MapRef)
		if m.Cell == 0 {
			return one(st, nil)
		}
		md := st.heap[m.Cell].(*MapData)
		ne := make([]MapEnt, len(md.Ent))
		for i, en := range md.Ent {
			ne[i] = en
			ne[i].Live = smt.And(en.Live, smt.Not(e.valEq(en.K, args[1])))
		}
		st.heap[m.Cell] = &MapData{Ent: ne}
		return one(st, nil)
	case "panic":
		return []Outcome{{St: st, Panic: &PanicInfo{Kind: "explicit", Msg: "panic(" + show(args[0]) + ")"}}}
	case "print", "println":
		return one(st, nil)
	case "recover":
		return one(st, Iface{})
	case "min", "max":
		r := args[0].(*smt.Term)
		for _, a := range args[1:] {
			t := a.(*smt.Term)
			var lt *smt.Term
			if t.Sort.K == smt.KFP {
				e.abort("builtin min/max on floats not modelled")
			}
			_, signed, _, _ := basicInfo(c.Args[0].Type())
			if signed {
				lt = smt.BVCmp(smt.OpBVSlt, t, r)
			} else {
				lt = smt.BVCmp(smt.OpBVUlt, t, r)
			}
			if b.Name() == "min" {
				r = smt.Ite(lt, t, r)
			} else {
				r = smt.Ite(lt, r, t)
			}
		}
		return one(st, r)
	case "close":
		return one(st, nil)
	case "ssa:wrapnilchk":
		// wrapper of a value-receiver method called through a pointer: panics on a nil pointer
		if p, ok := args[0].(Ptr); ok && p.IsNil() {
			return []Outcome{{St: st, Panic: &PanicInfo{Kind: "nil-deref", Msg: "value method called using nil pointer"}}}
		}
		return one(st, args[0])
	}
	e.abort("unsupported builtin %s", b.Name())
	return nil
}

// ---------- maps ----------

func mergeable(a, b Value) bool {
	switch x := a.(type) {
	case *smt.Term:
		y, ok := b.(*smt.Term)
		return ok && x.Sort == y.Sort
	}
	return false
}

func (e *Engine) lookup(f *frame, x *ssa.Lookup) (*frame, []*frame, []Outcome) {
	base := e.get(f, x.X)
	key := e.get(f, x.Index)
	if s, ok := base.(Str); ok {
		idx := key.(*smt.Term)
		if s.Code != nil || !idx.IsConst() {
			e.abort("symbolic string index")
		}
		i := int(idx.SInt())
		if i < 0 || i >= len(s.S) {
			return nil, nil, e.panicOut(f, "index", "string index out of range", x.Pos())
		}
		f.env[x] = smt.BVC(uint64(s.S[i]), 8)
		return f, nil, nil
	}
	m := base.(MapRef)
	vt := x.X.Type().Underlying().(*types.Map).Elem()
	zero := Zero(vt)
	set := func(g *frame, v Value, ok *smt.Term) {
		if x.CommaOk {
			g.env[x] = Tuple{v, ok}
		} else {
			g.env[x] = v
		}
	}
	if m.Cell == 0 {
		set(f, zero, smt.False)
		return f, nil, nil
	}
	md := f.st.heap[m.Cell].(*MapData)
	// fast path: scalar values, build an ite chain
	if _, scalar := zero.(*smt.Term); scalar {
		val := zero.(*smt.Term)
		found := smt.False
		for i := len(md.Ent) - 1; i >= 0; i-- {
			en := md.Ent[i]
			hit := smt.And(en.Live, e.valEq(en.K, key))
			val = smt.Ite(hit, en.V.(*smt.Term), val)
			found = smt.Or(found, hit)
		}
		set(f, val, found)
		return f, nil, nil
	}
	// general path: fork per matching entry
	var forks []*frame
	cur := f
	for _, en := range md.Ent {
		if cur == nil {
			break
		}
		hit := smt.And(en.Live, e.valEq(en.K, key))
		h, rest := e.forkOn(cur, hit)
		if h != nil {
			set(h, en.V, smt.True)
			forks = append(forks, h)
		}
		cur = rest
	}
	if cur != nil {
		set(cur, zero, smt.False)
		forks = append(forks, cur)
	}
	if len(forks) == 0 {
		return nil, nil, nil
	}
	return forks[0], forks[1:], nil
}

// mapUpdate writes key→val. Scalar values are merged with ite; for other values a symbolic key
// match replaces the entry conditionally only when the match condition is constant.
func (e *Engine) mapUpdate(st *State, m MapRef, key, val Value) {
	md := st.heap[m.Cell].(*MapData)
	ne := make([]MapEnt, len(md.Ent), len(md.Ent)+1)
	copy(ne, md.Ent)
	any := smt.False
	_, scalar := val.(*smt.Term)
	for i, en := range ne {
		hit := smt.And(en.Live, e.valEq(en.K, key))
		if hit.IsFalse() {
			continue
		}
		if !hit.IsTrue() {
			// decide with the path condition where it can (e.g. keys assumed distinct)
			if !e.feasible(st, hit) {
				continue
			}
			if !e.feasible(st, smt.Not(hit)) {
				hit = smt.True
			}
		}
		if hit.IsTrue() {
			ne[i].V = val
			any = smt.True
			break
		}
		if scalar && mergeable(en.V, val) {
			ne[i].V = smt.Ite(hit, val.(*smt.Term), en.V.(*smt.Term))
			any = smt.Or(any, hit)
			continue
		}
		e.abort("map update with symbolic key and non-scalar value")
	}
	if !any.IsTrue() {
		ne = append(ne, MapEnt{K: key, V: val, Live: smt.Not(any)})
	}
	st.heap[m.Cell] = &MapData{Ent: ne}
}

func (e *Engine) makeIter(f *frame, x *ssa.Range) Value {
	v := e.get(f, x.X)
	c := e.newCell()
	switch t := v.(type) {
	case MapRef:
		var ents []MapEnt
		if t.Cell != 0 {
			ents = f.st.heap[t.Cell].(*MapData).Ent
		}
		f.st.heap[c] = &IterData{Ent: ents}
	case Str:
		if t.Code != nil {
			e.abort("range over symbolic string")
		}
		f.st.heap[c] = &IterData{Str: t.S, IsS: true}
	default:
		e.abort("range over %T", v)
	}
	return IterV{Cell: c}
}

func (e *Engine) next_(f *frame, x *ssa.Next) (*frame, []*frame, []Outcome) {
	it := e.get(f, x.Iter).(IterV)
	d := f.st.heap[it.Cell].(*IterData)
	tt := x.Type().(*types.Tuple)
	if d.IsS {
		if d.Pos >= len(d.Str) {
			f.env[x] = Tuple{smt.False, smt.IntC(0), smt.BVC(0, 32)}
			return f, nil, nil
		}
		r := []rune(d.Str[d.Pos:])[0]
		f.env[x] = Tuple{smt.True, smt.IntC(int64(d.Pos)), smt.BVC(uint64(r), 32)}
		f.st.heap[it.Cell] = &IterData{Str: d.Str, IsS: true, Pos: d.Pos + len(string(r))}
		return f, nil, nil
	}
	pos := d.Pos
	for pos < len(d.Ent) && d.Ent[pos].Live.IsFalse() {
		pos++
	}
	if pos >= len(d.Ent) {
		f.env[x] = Tuple{smt.False, Zero(tt.At(1).Type()), Zero(tt.At(2).Type())}
		return f, nil, nil
	}
	en := d.Ent[pos]
	visit, skip := e.forkOn(f, en.Live)
	var frames []*frame
	if visit != nil {
		visit.st.heap[it.Cell] = &IterData{Ent: d.Ent, Pos: pos + 1}
		visit.env[x] = Tuple{smt.True, en.K, en.V}
		frames = append(frames, visit)
	}
	if skip != nil {
		skip.st.heap[it.Cell] = &IterData{Ent: d.Ent, Pos: pos + 1}
		skip.idx-- // re-run Next on the following entry
		frames = append(frames, skip)
	}
	if len(frames) == 0 {
		return nil, nil, nil
	}
	return frames[0], frames[1:], nil
}

// ---------- feasibility ----------

var pruneTimeout = 2 * time.Second

func (e *Engine) feasible(st *State, c *smt.Term) bool {
	if c.IsTrue() {
		return true
	}
	if c.IsFalse() {
		return false
	}
	if !e.Cfg.Prune {
		return true
	}
	q := smt.And(append(append([]*smt.Term(nil), st.pc...), c)...)
	if q.IsFalse() {
		return false
	}
	if q.IsTrue() {
		return true
	}
	if smt.HasFP(q) {
		return true // FP conditions are left to the final queries
	}
	if r, ok := e.pruneCache[q.ID]; ok {
		return r != smt.Unsat
	}
	e.PruneQueries++
	if e.sess == nil || e.sess.Dead() {
		if e.sess != nil {
			e.sess.Close()
		}
		e.sess = smt.NewSession(int(pruneTimeout.Milliseconds()))
	}
	r := e.sess.Check([]*smt.Term{q})
	e.pruneCache[q.ID] = r
	return r != smt.Unsat
}

var _ = fmt.Sprint
