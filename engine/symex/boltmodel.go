package symex

// A model of the go.etcd.io/bbolt API at the level of its documented contract: a database file is
// a set of named buckets, a bucket an ordered map from byte-string keys to byte-string values,
// DB.Update runs its function in a transaction that takes effect entirely (nil result) or not at
// all (error result), Cursor.Seek positions on the first key >= the argument. The store lives in
// the symbolic state under the database path, so "closing and reopening" is the identity - which
// is what bbolt promises for committed transactions. Keys are concrete byte strings.
//
// encoding/json for the maps the persistence layer stores: Marshal yields an opaque blob that
// Unmarshal turns back into an equal map (the round-trip contract of encoding/json for
// map[int]int and map[int]float64); any other byte string fails to decode.

import (
	"fmt"
	"sort"

	"fgsym/smt"
)

const boltPkg = "go.etcd.io/bbolt"

type boltKV struct {
	K string
	V Slice
}

// BoltStore is immutable: every update copies.
type BoltStore struct {
	B map[string][]boltKV // bucket -> entries sorted by key
}

func (s *BoltStore) clone() *BoltStore {
	n := &BoltStore{B: map[string][]boltKV{}}
	for k, v := range s.B {
		n.B[k] = append([]boltKV(nil), v...)
	}
	return n
}

func (e *Engine) bytesToString(st *State, v Value, what string) string {
	el := e.sliceElems(st, v)
	b := make([]byte, len(el))
	for i, x := range el {
		t, ok := x.(*smt.Term)
		if !ok || !t.IsConst() {
			e.abort("%s: symbolic byte string is not modelled", what)
		}
		b[i] = byte(t.SInt())
	}
	return string(b)
}

func (e *Engine) bytesOfString(st *State, txt string) Value {
	el := make([]Value, len(txt))
	for i := 0; i < len(txt); i++ {
		el[i] = smt.BVC(uint64(txt[i]), 8)
	}
	cell := e.newCell()
	st.heap[cell] = &ArrayV{E: el}
	return Slice{Cell: cell, Lo: 0, Hi: len(txt), Cap: len(txt)}
}

func registerBoltModel(e *Engine) {
	b := "(*" + boltPkg + "."
	storeOf := func(en *Engine, st *State, path string) (int, *BoltStore) {
		cell := en.namedCell(st, "bolt:store:"+path, func() Value { return &BoltStore{B: map[string][]boltKV{}} })
		return cell, st.heap[cell].(*BoltStore)
	}
	// handle -> text attribute ("path", "bucket", "cursor")
	setAttr := func(en *Engine, st *State, p Ptr, k, v string) {
		cell := en.namedCell(st, fmt.Sprintf("bolt:%s:%d", k, p.Cell), func() Value { return Str{} })
		st.heap[cell] = Str{S: v}
	}
	getAttr := func(en *Engine, st *State, p Ptr, k string) string {
		cell := en.namedCell(st, fmt.Sprintf("bolt:%s:%d", k, p.Cell), func() Value { return Str{} })
		return st.heap[cell].(Str).S
	}
	newHandle := func(en *Engine, st *State, typ string) Ptr {
		return en.alloc(st, Zero(en.typeOf(boltPkg, typ)))
	}

	e.reg(boltPkg+".Open", func(c *CallCtx, st *State, args []Value) []Outcome {
		en := c.E
		path := en.pathArg(args[0], "bbolt.Open")
		db := newHandle(en, st, "DB")
		setAttr(en, st, db, "path", path)
		storeOf(en, st, path)
		return one(st, Tuple{db, nilErr})
	})
	e.reg(b+"DB).Close", func(c *CallCtx, st *State, args []Value) []Outcome { return one(st, nilErr) })
	tx := func(c *CallCtx, st *State, args []Value) []Outcome {
		en := c.E
		db := args[0].(Ptr)
		path := getAttr(en, st, db, "path")
		cell, snapshot := storeOf(en, st, path)
		t := newHandle(en, st, "Tx")
		setAttr(en, st, t, "path", path)
		var outs []Outcome
		for _, o := range en.callValue(st, args[1], []Value{t}, nil, c.Frame) {
			if o.Panic != nil {
				outs = append(outs, o)
				continue
			}
			if iv, ok := o.Ret.(Iface); ok && iv.T != nil {
				o.St.heap[cell] = snapshot // rolled back
			}
			outs = append(outs, o)
		}
		return outs
	}
	e.reg(b+"DB).Update", tx)
	e.reg(b+"DB).View", tx)

	bucket := func(create bool) Intercept {
		return func(c *CallCtx, st *State, args []Value) []Outcome {
			en := c.E
			t := args[0].(Ptr)
			path := getAttr(en, st, t, "path")
			name := en.bytesToString(st, args[1], "bucket name")
			cell, s := storeOf(en, st, path)
			_, ok := s.B[name]
			if !ok && create {
				n := s.clone()
				n.B[name] = []boltKV{}
				st.heap[cell] = n
				ok = true
			}
			var ret Value = Ptr{}
			if ok {
				h := newHandle(en, st, "Bucket")
				setAttr(en, st, h, "path", path)
				setAttr(en, st, h, "bucket", name)
				ret = h
			}
			if create {
				return one(st, Tuple{ret, nilErr})
			}
			return one(st, ret)
		}
	}
	e.reg(b+"Tx).Bucket", bucket(false))
	e.reg(b+"Tx).CreateBucketIfNotExists", bucket(true))

	e.reg(b+"Tx).DeleteBucket", func(c *CallCtx, st *State, args []Value) []Outcome {
		en := c.E
		path := getAttr(en, st, args[0].(Ptr), "path")
		name := en.bytesToString(st, args[1], "bucket name")
		cell, s := storeOf(en, st, path)
		if _, ok := s.B[name]; !ok {
			return one(st, en.newError(st, "bucket not found"))
		}
		n := s.clone()
		delete(n.B, name)
		st.heap[cell] = n
		return one(st, nilErr)
	})
	e.reg(b+"Bucket).Stats", func(c *CallCtx, st *State, args []Value) []Outcome {
		en := c.E
		h := args[0].(Ptr)
		_, s := storeOf(en, st, getAttr(en, st, h, "path"))
		t := en.typeOf(boltPkg, "BucketStats")
		v := Zero(t).(*StructV)
		f := append([]Value(nil), v.F...)
		f[fieldIndex(t, "KeyN")] = smt.IntC(int64(len(s.B[getAttr(en, st, h, "bucket")])))
		return one(st, &StructV{F: f})
	})
	e.reg(b+"Bucket).ForEach", func(c *CallCtx, st *State, args []Value) []Outcome {
		en := c.E
		h := args[0].(Ptr)
		_, s := storeOf(en, st, getAttr(en, st, h, "path"))
		list := s.B[getAttr(en, st, h, "bucket")]
		cur := []*State{st}
		var outs []Outcome
		for _, kv := range list {
			var next []*State
			for _, s0 := range cur {
				for _, o := range en.callValue(s0, args[1], []Value{en.bytesOfString(s0, kv.K), kv.V}, nil, c.Frame) {
					if o.Panic != nil {
						outs = append(outs, o)
						continue
					}
					if iv, ok := o.Ret.(Iface); ok && iv.T != nil {
						outs = append(outs, o) // the callback's error ends the iteration
						continue
					}
					next = append(next, o.St)
				}
			}
			cur = next
		}
		for _, s0 := range cur {
			outs = append(outs, Outcome{St: s0, Ret: nilErr})
		}
		return outs
	})

	find := func(list []boltKV, k string) (int, bool) {
		i := sort.Search(len(list), func(i int) bool { return list[i].K >= k })
		return i, i < len(list) && list[i].K == k
	}
	e.reg(b+"Bucket).Get", func(c *CallCtx, st *State, args []Value) []Outcome {
		en := c.E
		h := args[0].(Ptr)
		_, s := storeOf(en, st, getAttr(en, st, h, "path"))
		list := s.B[getAttr(en, st, h, "bucket")]
		if i, ok := find(list, en.bytesToString(st, args[1], "key")); ok {
			return one(st, list[i].V)
		}
		return one(st, Slice{})
	})
	e.reg(b+"Bucket).Put", func(c *CallCtx, st *State, args []Value) []Outcome {
		en := c.E
		h := args[0].(Ptr)
		cell, s := storeOf(en, st, getAttr(en, st, h, "path"))
		bn := getAttr(en, st, h, "bucket")
		k := en.bytesToString(st, args[1], "key")
		n := s.clone()
		list := n.B[bn]
		i, ok := find(list, k)
		if ok {
			list[i].V = args[2].(Slice)
		} else {
			list = append(list, boltKV{})
			copy(list[i+1:], list[i:])
			list[i] = boltKV{K: k, V: args[2].(Slice)}
		}
		n.B[bn] = list
		st.heap[cell] = n
		return one(st, nilErr)
	})
	del := func(en *Engine, st *State, path, bn, k string) {
		cell, s := storeOf(en, st, path)
		n := s.clone()
		list := n.B[bn]
		if i, ok := find(list, k); ok {
			n.B[bn] = append(list[:i:i], list[i+1:]...)
			st.heap[cell] = n
		}
	}
	e.reg(b+"Bucket).Delete", func(c *CallCtx, st *State, args []Value) []Outcome {
		en := c.E
		h := args[0].(Ptr)
		del(en, st, getAttr(en, st, h, "path"), getAttr(en, st, h, "bucket"), en.bytesToString(st, args[1], "key"))
		return one(st, nilErr)
	})
	e.reg(b+"Bucket).Cursor", func(c *CallCtx, st *State, args []Value) []Outcome {
		en := c.E
		h := args[0].(Ptr)
		cur := newHandle(en, st, "Cursor")
		setAttr(en, st, cur, "path", getAttr(en, st, h, "path"))
		setAttr(en, st, cur, "bucket", getAttr(en, st, h, "bucket"))
		setAttr(en, st, cur, "cursor", "")
		setAttr(en, st, cur, "valid", "")
		return one(st, cur)
	})
	position := func(en *Engine, st *State, cur Ptr, i int, list []boltKV) Value {
		if i < 0 || i >= len(list) {
			setAttr(en, st, cur, "valid", "")
			return Tuple{Slice{}, Slice{}}
		}
		setAttr(en, st, cur, "cursor", list[i].K)
		setAttr(en, st, cur, "valid", "y")
		return Tuple{en.bytesOfString(st, list[i].K), list[i].V}
	}
	curList := func(en *Engine, st *State, cur Ptr) []boltKV {
		_, s := storeOf(en, st, getAttr(en, st, cur, "path"))
		return s.B[getAttr(en, st, cur, "bucket")]
	}
	e.reg(b+"Cursor).Seek", func(c *CallCtx, st *State, args []Value) []Outcome {
		en := c.E
		cur := args[0].(Ptr)
		list := curList(en, st, cur)
		i, _ := find(list, en.bytesToString(st, args[1], "seek key"))
		return one(st, position(en, st, cur, i, list))
	})
	e.reg(b+"Cursor).First", func(c *CallCtx, st *State, args []Value) []Outcome {
		cur := args[0].(Ptr)
		return one(st, position(c.E, st, cur, 0, curList(c.E, st, cur)))
	})
	e.reg(b+"Cursor).Last", func(c *CallCtx, st *State, args []Value) []Outcome {
		cur := args[0].(Ptr)
		list := curList(c.E, st, cur)
		return one(st, position(c.E, st, cur, len(list)-1, list))
	})
	step := func(d int) Intercept {
		return func(c *CallCtx, st *State, args []Value) []Outcome {
			en := c.E
			cur := args[0].(Ptr)
			list := curList(en, st, cur)
			if getAttr(en, st, cur, "valid") == "" {
				return one(st, Tuple{Slice{}, Slice{}})
			}
			i, ok := find(list, getAttr(en, st, cur, "cursor"))
			if d > 0 && !ok {
				i-- // the current entry was deleted: the next one moved into its place
			}
			return one(st, position(en, st, cur, i+d, list))
		}
	}
	e.reg(b+"Cursor).Next", step(1))
	e.reg(b+"Cursor).Prev", step(-1))
	e.reg(b+"Cursor).Delete", func(c *CallCtx, st *State, args []Value) []Outcome {
		en := c.E
		cur := args[0].(Ptr)
		if getAttr(en, st, cur, "valid") == "" {
			return one(st, en.newError(st, "bbolt: cursor is not positioned"))
		}
		del(en, st, getAttr(en, st, cur, "path"), getAttr(en, st, cur, "bucket"), getAttr(en, st, cur, "cursor"))
		return one(st, nilErr)
	})

	// ---- encoding/json on maps ----
	e.reg("encoding/json.Marshal", func(c *CallCtx, st *State, args []Value) []Outcome {
		en := c.E
		iv, ok := args[0].(Iface)
		if !ok {
			en.abort("json.Marshal: unsupported argument %T", args[0])
		}
		mr, ok := iv.V.(MapRef)
		if !ok {
			en.abort("json.Marshal of %v is not modelled (maps only)", iv.T)
		}
		blob := en.bytesOfString(st, "{blob}").(Slice)
		var snap Value = &MapData{}
		if mr.Cell != 0 {
			snap = st.heap[mr.Cell]
		}
		cell := en.namedCell(st, fmt.Sprintf("blob:%d", blob.Cell), func() Value { return snap })
		st.heap[cell] = snap
		tc := en.namedCell(st, fmt.Sprintf("blobtype:%d", blob.Cell), func() Value { return Str{} })
		st.heap[tc] = Str{S: iv.T.String()}
		return one(st, Tuple{blob, nilErr})
	})
	e.reg("encoding/json.Unmarshal", func(c *CallCtx, st *State, args []Value) []Outcome {
		en := c.E
		data, ok := args[0].(Slice)
		iv, ok2 := args[1].(Iface)
		if !ok || !ok2 || iv.T == nil {
			en.abort("json.Unmarshal: unsupported arguments")
		}
		dst := iv.V.(Ptr)
		if bc, ok := en.named[fmt.Sprintf("blob:%d", data.Cell)]; ok {
			if snap, ok := st.heap[bc]; ok {
				tc := en.named[fmt.Sprintf("blobtype:%d", data.Cell)]
				want := iv.T.String()
				if len(want) > 0 && want[0] == '*' {
					want = want[1:]
				}
				if st.heap[tc].(Str).S != want {
					return one(st, en.newError(st, "json: cannot unmarshal into Go value of type "+want))
				}
				cell := en.newCell()
				st.heap[cell] = snap
				st.Store(dst, MapRef{Cell: cell})
				return one(st, nilErr)
			}
		}
		return one(st, en.newError(st, "invalid character looking for beginning of value"))
	})
}
