package symex

import (
	"fmt"
	"os"
	"strings"

	"fgsym/smt"
)

// VC is a verification condition: under PC, Cond must hold.
type VC struct {
	Harness string
	Label   string
	Kind    string // assert | panic | unwind
	PC      []*smt.Term
	Cond    *smt.Term
	Choices []ChoiceRec
	Nondets []*smt.Term
	Recs    []Record
	Info    string
}

// PathEnd records a completed harness path (for reachability and translator validation).
type PathEnd struct {
	Harness string
	PC      []*smt.Term
	Choices []ChoiceRec
	Nondets []*smt.Term
	Recs    []Record
}

func (e *Engine) addVC(st *State, kind, label string, cond *smt.Term, info string) {
	e.VCs = append(e.VCs, &VC{
		Harness: e.Harness, Label: label, Kind: kind,
		PC:      append([]*smt.Term(nil), st.pc...),
		Cond:    cond,
		Choices: append([]ChoiceRec(nil), st.choices...),
		Nondets: append([]*smt.Term(nil), st.nondets...),
		Recs:    append([]Record(nil), st.recs...),
		Info:    info,
	})
}

func (e *Engine) nondet(st *State, name string, s smt.Sort) *smt.Term {
	if e.Concrete != nil {
		n := st.uniqueName(name)
		if v, ok := e.Concrete.Values[n]; ok && v.Sort == s {
			return v
		}
		switch s.K {
		case smt.KBool:
			return smt.False
		case smt.KBV:
			return smt.BVC(0, s.W)
		default:
			return smt.FPConst(0, s)
		}
	}
	v := smt.Var(st.uniqueName(name), s)
	st.nondets = append(st.nondets, v)
	return v
}

func registerZzv(e *Engine) {
	z := ZzvPath + "."
	e.reg(z+"Symbolic", func(c *CallCtx, st *State, args []Value) []Outcome { return one(st, smt.True) })
	nd := func(s smt.Sort) Intercept {
		return func(c *CallCtx, st *State, args []Value) []Outcome {
			name, ok := strArg(args[0])
			if !ok {
				c.E.abort("nondet name must be concrete")
			}
			return one(st, c.E.nondet(st, name, s))
		}
	}
	e.reg(z+"Int64", nd(smt.BV64))
	e.reg(z+"Int", nd(smt.BV64))
	e.reg(z+"Uint32", nd(smt.BV32))
	e.reg(z+"Bool", nd(smt.Bool))
	e.reg(z+"Float64", nd(smt.FP64))
	e.reg(z+"Thorough", func(c *CallCtx, st *State, args []Value) []Outcome { return one(st, smt.BoolC(c.E.Cfg.Thorough)) })
	b2 := func(f func(a, b *smt.Term) *smt.Term) Intercept {
		return func(c *CallCtx, st *State, args []Value) []Outcome {
			return one(st, f(args[0].(*smt.Term), args[1].(*smt.Term)))
		}
	}
	e.reg(z+"And", b2(func(a, b *smt.Term) *smt.Term { return smt.And(a, b) }))
	e.reg(z+"Or", b2(func(a, b *smt.Term) *smt.Term { return smt.Or(a, b) }))
	e.reg(z+"Implies", b2(func(a, b *smt.Term) *smt.Term { return smt.Implies(a, b) }))
	e.reg(z+"Not", func(c *CallCtx, st *State, args []Value) []Outcome { return one(st, smt.Not(args[0].(*smt.Term))) })
	ite := func(c *CallCtx, st *State, args []Value) []Outcome {
		return one(st, smt.Ite(args[0].(*smt.Term), args[1].(*smt.Term), args[2].(*smt.Term)))
	}
	e.reg(z+"IteInt", ite)
	e.reg(z+"IteF", ite)
	e.reg(z+"AbsInt", func(c *CallCtx, st *State, args []Value) []Outcome {
		a := args[0].(*smt.Term)
		return one(st, smt.Ite(smt.Slt(a, smt.IntC(0)), smt.BVUn(smt.OpBVNeg, a), a))
	})
	e.reg(z+"IsNaN", func(c *CallCtx, st *State, args []Value) []Outcome {
		return one(st, smt.FPPred(smt.OpFPIsNaN, args[0].(*smt.Term)))
	})
	e.reg(z+"IsFinite", func(c *CallCtx, st *State, args []Value) []Outcome {
		a := args[0].(*smt.Term)
		return one(st, smt.Not(smt.Or(smt.FPPred(smt.OpFPIsNaN, a), smt.FPPred(smt.OpFPIsInf, a))))
	})
	e.reg(z+"EnableHavoc", func(c *CallCtx, st *State, args []Value) []Outcome {
		name, _ := strArg(args[0])
		cell := c.E.namedCell(st, "havoc:"+name, func() Value { return smt.False })
		st.heap[cell] = smt.True
		return one(st, nil)
	})
	e.reg(z+"SetMerge", func(c *CallCtx, st *State, args []Value) []Outcome {
		c.E.Cfg.Merge = args[0].(*smt.Term).IsTrue()
		return one(st, nil)
	})
	e.reg(z+"Choice", func(c *CallCtx, st *State, args []Value) []Outcome {
		name, _ := strArg(args[0])
		k := args[1].(*smt.Term)
		if !k.IsConst() {
			c.E.abort("Choice arity must be concrete")
		}
		key := st.uniqueName("choice:" + name)
		if c.E.Concrete != nil {
			v := c.E.Concrete.Choices[key]
			st.choices = append(st.choices, ChoiceRec{Name: key, V: v})
			return one(st, smt.IntC(int64(v)))
		}
		var outs []Outcome
		n := int(k.SInt())
		for i := 0; i < n; i++ {
			s := st
			if i < n-1 {
				s = st.Clone()
			}
			s.choices = append(s.choices, ChoiceRec{Name: key, V: i})
			outs = append(outs, Outcome{St: s, Ret: smt.IntC(int64(i))})
		}
		return outs
	})
	e.reg(z+"Id", func(c *CallCtx, st *State, args []Value) []Outcome {
		name, _ := strArg(args[0])
		k := int(args[1].(*smt.Term).SInt())
		v := c.E.nondet(st, name, smt.BV64)
		st.Assume(smt.BVCmp(smt.OpBVUle, v, smt.IntC(int64(k))))
		for i := 1; i <= k; i++ {
			c.E.strCodes[IdName(i)] = i
		}
		return one(st, Str{Code: v})
	})
	e.reg(z+"IdName", func(c *CallCtx, st *State, args []Value) []Outcome {
		t := args[0].(*smt.Term)
		if t.IsConst() {
			i := int(t.SInt())
			c.E.strCodes[IdName(i)] = i
			return one(st, Str{S: IdName(i)})
		}
		return one(st, Str{Code: t})
	})
	e.reg(z+"Assume", func(c *CallCtx, st *State, args []Value) []Outcome {
		cond := args[0].(*smt.Term)
		if cond.IsFalse() || !c.E.feasible(st, cond) {
			return nil
		}
		st.Assume(cond)
		return one(st, nil)
	})
	e.reg(z+"Assert", func(c *CallCtx, st *State, args []Value) []Outcome {
		cond := args[0].(*smt.Term)
		label, _ := strArg(args[1])
		c.E.addVC(st, "assert", label, cond, "")
		if cond.IsFalse() {
			return nil
		}
		st.Assume(cond)
		return one(st, nil)
	})
	e.reg(z+"Record", func(c *CallCtx, st *State, args []Value) []Outcome {
		tag, _ := strArg(args[0])
		st.recs = append(st.recs, Record{Tag: tag, V: args[1].(*smt.Term)})
		return one(st, nil)
	})
	e.reg(z+"RecordF", func(c *CallCtx, st *State, args []Value) []Outcome {
		tag, _ := strArg(args[0])
		st.recs = append(st.recs, Record{Tag: tag, V: args[1].(*smt.Term)})
		return one(st, nil)
	})
	e.reg(z+"RecordB", func(c *CallCtx, st *State, args []Value) []Outcome {
		tag, _ := strArg(args[0])
		st.recs = append(st.recs, Record{Tag: tag, V: smt.Ite(args[1].(*smt.Term), smt.IntC(1), smt.IntC(0))})
		return one(st, nil)
	})
	e.reg(z+"TempDir", func(c *CallCtx, st *State, args []Value) []Outcome {
		name, _ := strArg(args[0])
		return one(st, Str{S: "/zzv/" + name})
	})
	e.reg(z+"Cleanup", noop)
	e.reg(z+"clockAdvance", func(c *CallCtx, st *State, args []Value) []Outcome {
		en := c.E
		sc := en.namedCell(st, "clock.sec", func() Value { return smt.IntC(1700000000) })
		mc := en.namedCell(st, "clock.ms", func() Value { return smt.BVC(0, 64) })
		st.heap[mc] = smt.Add(st.heap[mc].(*smt.Term), args[1].(*smt.Term))
		st.heap[sc] = smt.Add(st.heap[sc].(*smt.Term), args[0].(*smt.Term))
		return one(st, nil)
	})
	e.reg(z+"MutexHeld", func(c *CallCtx, st *State, args []Value) []Outcome {
		p := args[0].(Ptr)
		name := fmt.Sprintf("mutex:%d%v", p.Cell, p.Path)
		cell := c.E.namedCell(st, name, func() Value { return smt.IntC(0) })
		return one(st, smt.Eq(st.heap[cell].(*smt.Term), smt.IntC(1)))
	})
	// WatchWrites(path, &mutex): every later write to the file cell is classified by whether the
	// running code holds the mutex (ghost flag == 1) at that moment; UnlockedWrites(path) counts the
	// writes made without it.
	e.reg(z+"WatchWrites", func(c *CallCtx, st *State, args []Value) []Outcome {
		p := c.E.pathArg(args[0], "WatchWrites")
		mp := args[1].(Ptr)
		cell := c.E.namedCell(st, "watch:"+p, func() Value { return Str{} })
		st.heap[cell] = Str{S: fmt.Sprintf("mutex:%d%v", mp.Cell, mp.Path)}
		return one(st, nil)
	})
	e.reg(z+"UnlockedWrites", func(c *CallCtx, st *State, args []Value) []Outcome {
		p := c.E.pathArg(args[0], "UnlockedWrites")
		cell := c.E.namedCell(st, "unlocked:"+p, func() Value { return smt.IntC(0) })
		return one(st, st.heap[cell])
	})
	e.reg(z+"SetTicks", func(c *CallCtx, st *State, args []Value) []Outcome {
		cell := c.E.namedCell(st, "select.ticks", func() Value { return smt.IntC(0) })
		st.heap[cell] = args[0]
		return one(st, nil)
	})
}

// ---------- file model ----------

const (
	fExists = iota
	fValue
	fGarbage
	fReadErr
	fWMode
	fFloat  // FP term when the file holds a float text (then fGarbage is true for integer reads)
	fWrites // number of write calls on this path so far
)

func (e *Engine) filesCell(st *State) int {
	return e.namedCell(st, "files", func() Value { return &MapData{} })
}

func (e *Engine) fileGet(st *State, path string) *StructV {
	md := st.heap[e.filesCell(st)].(*MapData)
	for _, en := range md.Ent {
		if en.K.(Str).S == path {
			return en.V.(*StructV)
		}
	}
	return &StructV{F: []Value{smt.False, smt.IntC(0), smt.False, smt.False, smt.IntC(0), Opaque{What: "nofloat"}, smt.IntC(0)}}
}

func (e *Engine) fileSet(st *State, path string, f *StructV) {
	c := e.filesCell(st)
	e.mapUpdate(st, MapRef{Cell: c}, Str{S: path}, f)
}

func with(f *StructV, i int, v Value) *StructV {
	nf := append([]Value(nil), f.F...)
	nf[i] = v
	return &StructV{F: nf}
}

func (e *Engine) pathArg(v Value, what string) string {
	p, ok := strArg(v)
	if !ok {
		e.abort("%s: path must be concrete", what)
	}
	if strings.HasPrefix(p, "<") {
		e.abort("%s: path is an opaque string %q", what, p)
	}
	return p
}

// forkStates splits st by the given mutually exclusive conditions.
func (e *Engine) forkStates(st *State, conds []*smt.Term) []*State {
	out := make([]*State, len(conds))
	live := 0
	for _, c := range conds {
		if !c.IsFalse() {
			live++
		}
	}
	used := 0
	for i, c := range conds {
		if c.IsFalse() {
			continue
		}
		used++
		var s *State
		if used == live {
			s = st
		} else {
			s = st.Clone()
		}
		if !c.IsTrue() {
			if !e.feasible(s, c) {
				continue
			}
			s.Assume(c)
		}
		out[i] = s
	}
	return out
}

func registerFiles(e *Engine) {
	z := ZzvPath + "."
	e.reg(z+"FilePut", func(c *CallCtx, st *State, args []Value) []Outcome {
		p := c.E.pathArg(args[0], "FilePut")
		f := c.E.fileGet(st, p)
		f = with(with(with(with(f, fExists, args[1]), fValue, args[2]), fGarbage, smt.False), fFloat, Opaque{What: "nofloat"})
		c.E.fileSet(st, p, f)
		return one(st, nil)
	})
	e.reg(z+"FileState", func(c *CallCtx, st *State, args []Value) []Outcome {
		p := c.E.pathArg(args[0], "FileState")
		f := c.E.fileGet(st, p)
		f = with(with(with(with(f, fExists, args[1]), fGarbage, args[2]), fValue, args[3]), fFloat, Opaque{What: "nofloat"})
		c.E.fileSet(st, p, f)
		return one(st, nil)
	})
	e.reg(z+"FilePutFloat", func(c *CallCtx, st *State, args []Value) []Outcome {
		p := c.E.pathArg(args[0], "FilePutFloat")
		f := c.E.fileGet(st, p)
		f = with(with(with(f, fExists, smt.True), fGarbage, smt.True), fFloat, args[1])
		c.E.fileSet(st, p, f)
		return one(st, nil)
	})
	e.reg(z+"FileGarbage", func(c *CallCtx, st *State, args []Value) []Outcome {
		p := c.E.pathArg(args[0], "FileGarbage")
		f := c.E.fileGet(st, p)
		c.E.fileSet(st, p, with(with(f, fExists, smt.True), fGarbage, smt.True))
		return one(st, nil)
	})
	e.reg(z+"FileExists", func(c *CallCtx, st *State, args []Value) []Outcome {
		return one(st, c.E.fileGet(st, c.E.pathArg(args[0], "FileExists")).F[fExists])
	})
	e.reg(z+"FilePeek", func(c *CallCtx, st *State, args []Value) []Outcome {
		f := c.E.fileGet(st, c.E.pathArg(args[0], "FilePeek"))
		ok := smt.And(f.F[fExists].(*smt.Term), smt.Not(f.F[fGarbage].(*smt.Term)))
		return one(st, smt.Ite(ok, f.F[fValue].(*smt.Term), smt.IntC(-1)))
	})
	e.reg(z+"FileWrites", func(c *CallCtx, st *State, args []Value) []Outcome {
		return one(st, c.E.fileGet(st, c.E.pathArg(args[0], "FileWrites")).F[fWrites])
	})
	e.reg(z+"FileFault", func(c *CallCtx, st *State, args []Value) []Outcome {
		p := c.E.pathArg(args[0], "FileFault")
		f := c.E.fileGet(st, p)
		c.E.fileSet(st, p, with(with(f, fReadErr, args[1]), fWMode, args[2]))
		return one(st, nil)
	})

	// zzv.FileText(path, text): the file holds exactly this (concrete) text; zzv.RealFileIO(): the
	// integer read helper runs its real body on top of an os.ReadFile that serves those texts.
	e.reg(z+"FileText", func(c *CallCtx, st *State, args []Value) []Outcome {
		p := c.E.pathArg(args[0], "FileText")
		txt, ok := strArg(args[1])
		if !ok {
			c.E.abort("FileText needs a concrete text")
		}
		cell := c.E.namedCell(st, "text:"+p, func() Value { return Str{} })
		st.heap[cell] = Str{S: txt}
		return one(st, nil)
	})
	e.reg(z+"RealFileIO", func(c *CallCtx, st *State, args []Value) []Outcome {
		cell := c.E.namedCell(st, "file:real", func() Value { return smt.False })
		st.heap[cell] = smt.True
		return one(st, nil)
	})

	// util.ReadIntFromFile(path) (int, error)
	e.reg(utilPkg+".ReadIntFromFile", func(c *CallCtx, st *State, args []Value) []Outcome {
		en := c.E
		if cell, ok := en.named["file:real"]; ok {
			if v, ok := st.heap[cell]; ok && v.(*smt.Term).IsTrue() {
				return en.execFuncFV(st, c.Fn, args, nil)
			}
		}
		p := en.pathArg(args[0], "ReadIntFromFile")
		f := en.fileGet(st, p)
		exists, garbage, rerr := f.F[fExists].(*smt.Term), f.F[fGarbage].(*smt.Term), f.F[fReadErr].(*smt.Term)
		unreadable := smt.Or(smt.Not(exists), rerr)
		conds := []*smt.Term{
			smt.And(smt.Not(unreadable), smt.Not(garbage)),
			unreadable,
			smt.And(smt.Not(unreadable), garbage),
		}
		sts := en.forkStates(st, conds)
		var outs []Outcome
		if sts[0] != nil {
			outs = append(outs, Outcome{St: sts[0], Ret: Tuple{f.F[fValue], nilErr}})
		}
		if sts[1] != nil {
			outs = append(outs, Outcome{St: sts[1], Ret: Tuple{smt.IntC(-1), en.newError(sts[1], "read "+p+": unreadable")}})
		}
		if sts[2] != nil {
			outs = append(outs, Outcome{St: sts[2], Ret: Tuple{smt.IntC(0), en.newError(sts[2], "strconv.Atoi: parsing: invalid syntax")}})
		}
		return outs
	})
	write := func(c *CallCtx, st *State, args []Value) []Outcome {
		en := c.E
		if cell, ok := en.named["file:real"]; ok {
			if v, ok := st.heap[cell]; ok && v.(*smt.Term).IsTrue() {
				return en.execFuncFV(st, c.Fn, args, nil)
			}
		}
		p := en.pathArg(args[1], "WriteIntToFile")
		f := en.fileGet(st, p)
		f = with(f, fWrites, smt.Add(f.F[fWrites].(*smt.Term), smt.IntC(1)))
		en.fileSet(st, p, f)
		if wc, ok := en.named["watch:"+p]; ok {
			if w, ok := st.heap[wc]; ok {
				mc := en.namedCell(st, w.(Str).S, func() Value { return smt.IntC(0) })
				uc := en.namedCell(st, "unlocked:"+p, func() Value { return smt.IntC(0) })
				held := smt.Eq(st.heap[mc].(*smt.Term), smt.IntC(1))
				st.heap[uc] = smt.Add(st.heap[uc].(*smt.Term), smt.Ite(held, smt.IntC(0), smt.IntC(1)))
			}
		}
		wm := f.F[fWMode].(*smt.Term)
		conds := []*smt.Term{smt.Eq(wm, smt.IntC(0)), smt.Eq(wm, smt.IntC(1)), smt.Not(smt.Or(smt.Eq(wm, smt.IntC(0)), smt.Eq(wm, smt.IntC(1))))}
		sts := en.forkStates(st, conds)
		var outs []Outcome
		if sts[0] != nil {
			nf := with(with(with(f, fExists, smt.True), fValue, args[0]), fGarbage, smt.False)
			en.fileSet(sts[0], p, nf)
			outs = append(outs, Outcome{St: sts[0], Ret: nilErr})
		}
		if sts[1] != nil {
			outs = append(outs, Outcome{St: sts[1], Ret: en.newError(sts[1], "write "+p+": failed")})
		}
		if sts[2] != nil {
			outs = append(outs, Outcome{St: sts[2], Ret: nilErr})
		}
		return outs
	}
	e.reg(utilPkg+".WriteIntToFile", write)
	e.reg(utilPkg+".WriteIntToFileAtomic", write)
	// util.SafeCmdExecution for the two command forms the controller harnesses configure:
	//   /bin/cat <file>                      -> content of the file cell (exit status 1 if unreadable)
	//   /bin/sh -c "echo $0 > <file>" <n>    -> writes n to the file cell
	// Harnesses that verify SafeCmdExecution itself set the named flag "cmd:real" and get the real body.
	e.reg(utilPkg+".SafeCmdExecution", func(c *CallCtx, st *State, args []Value) []Outcome {
		en := c.E
		if cell, ok := en.named["cmd:real"]; ok {
			if v, ok := st.heap[cell]; ok && v.(*smt.Term).IsTrue() {
				return en.execFuncFV(st, c.Fn, args, nil)
			}
		}
		exe, _ := strArg(args[0])
		av := en.sliceElems(st, args[1])
		switch {
		case exe == "/bin/cat" && len(av) == 1:
			p := en.pathArg(av[0], "cmd cat")
			f := en.fileGet(st, p)
			exists, garbage, rerr := f.F[fExists].(*smt.Term), f.F[fGarbage].(*smt.Term), f.F[fReadErr].(*smt.Term)
			unreadable := smt.Or(smt.Not(exists), rerr)
			sts := en.forkStates(st, []*smt.Term{smt.And(smt.Not(unreadable), smt.Not(garbage)), unreadable, smt.And(smt.Not(unreadable), garbage)})
			var outs []Outcome
			if sts[0] != nil {
				outs = append(outs, Outcome{St: sts[0], Ret: Tuple{Str{Num: f.F[fValue].(*smt.Term)}, nilErr}})
			}
			if sts[1] != nil {
				outs = append(outs, Outcome{St: sts[1], Ret: Tuple{Str{}, en.newError(sts[1], "exit status 1")}})
			}
			if sts[2] != nil {
				if ft, ok := f.F[fFloat].(*smt.Term); ok {
					outs = append(outs, Outcome{St: sts[2], Ret: Tuple{Str{FNum: ft}, nilErr}})
				} else {
					outs = append(outs, Outcome{St: sts[2], Ret: Tuple{Str{S: "garbage"}, nilErr}})
				}
			}
			return outs
		case exe == "/bin/sh" && len(av) == 3:
			script, _ := strArg(av[1])
			const pre = "echo $0 > "
			if a0, _ := strArg(av[0]); a0 != "-c" || !strings.HasPrefix(script, pre) {
				break
			}
			p := strings.TrimPrefix(script, pre)
			val, ok := av[2].(Str)
			if !ok {
				break
			}
			var num *smt.Term
			if val.Num != nil {
				num = val.Num
			} else if txt, ok := strArg(val); ok {
				var i int64
				if _, err := fmt.Sscanf(txt, "%d", &i); err != nil {
					break
				}
				num = smt.IntC(i)
			} else {
				break
			}
			f := en.fileGet(st, p)
			wm := f.F[fWMode].(*smt.Term)
			sts := en.forkStates(st, []*smt.Term{smt.Eq(wm, smt.IntC(0)), smt.Eq(wm, smt.IntC(1)), smt.Not(smt.Or(smt.Eq(wm, smt.IntC(0)), smt.Eq(wm, smt.IntC(1))))})
			var outs []Outcome
			if sts[0] != nil {
				en.fileSet(sts[0], p, with(with(with(f, fExists, smt.True), fValue, num), fGarbage, smt.False))
				outs = append(outs, Outcome{St: sts[0], Ret: Tuple{Str{}, nilErr}})
			}
			if sts[1] != nil {
				outs = append(outs, Outcome{St: sts[1], Ret: Tuple{Str{}, en.newError(sts[1], "exit status 1")}})
			}
			if sts[2] != nil {
				outs = append(outs, Outcome{St: sts[2], Ret: Tuple{Str{}, nilErr}})
			}
			return outs
		}
		en.abort("SafeCmdExecution(%s, ...) is not one of the modelled command forms", exe)
		return nil
	})
	// os.Lstat: a symbolic link registered with zzv.SymlinkPut is reported as such (created by the
	// harness as root: root:root, mode L0777); anything else as os.Stat without following links
	e.reg("os.Lstat", func(c *CallCtx, st *State, args []Value) []Outcome {
		en := c.E
		p := en.pathArg(args[0], "os.Lstat")
		if en.resolveLink(st, p) != p {
			stT := en.typeOf("syscall", "Stat_t")
			sv := Zero(stT).(*StructV)
			nf := append([]Value(nil), sv.F...)
			nf[fieldIndex(stT, "Uid")] = smt.BVC(0, 32)
			nf[fieldIndex(stT, "Gid")] = smt.BVC(0, 32)
			sp := en.alloc(st, &StructV{F: nf})
			fi := &StructV{F: []Value{smt.BVC(uint64(os.ModeSymlink)|0o777, 32), sp}}
			return one(st, Tuple{Iface{T: en.typeOf(ZzvPath, "FileInfo"), V: fi}, nilErr})
		}
		if h, ok := en.statOutcomes(st, p); ok {
			return h
		}
		ne := st.Load(en.globalPtr(st, en.Pkgs["io/fs"].Var("ErrNotExist")))
		return one(st, Tuple{Iface{}, ne})
	})
	e.reg("os.Stat", func(c *CallCtx, st *State, args []Value) []Outcome {
		en := c.E
		p := en.resolveLink(st, en.pathArg(args[0], "os.Stat"))
		if h, ok := en.statOutcomes(st, p); ok {
			return h
		}
		f := en.fileGet(st, p)
		exists := f.F[fExists].(*smt.Term)
		sts := en.forkStates(st, []*smt.Term{exists, smt.Not(exists)})
		var outs []Outcome
		if sts[0] != nil {
			outs = append(outs, Outcome{St: sts[0], Ret: Tuple{Iface{}, nilErr}})
		}
		if sts[1] != nil {
			ne := sts[1].Load(en.globalPtr(sts[1], en.Pkgs["io/fs"].Var("ErrNotExist")))
			outs = append(outs, Outcome{St: sts[1], Ret: Tuple{Iface{}, ne}})
		}
		return outs
	})
}

// IdName is the i-th member of the identifier family behind zzv.Id: zzid1, zzid2, zzid3 and, as
// the fourth, ZZID1 - the first one in another letter case (identifiers are compared exactly).
func IdName(i int) string {
	if i == 4 {
		return "ZZID1"
	}
	return fmt.Sprintf("zzid%d", i)
}
