package symex

import (
	"fmt"
	"go/types"
	"math"
	"path"
	"path/filepath"
	"regexp"
	"sort"
	"strconv"
	"strings"

	"fgsym/smt"
)

func (e *Engine) typeOf(pkg, name string) types.Type {
	p := e.Pkgs[pkg]
	if p == nil {
		e.abort("package %s not loaded (needed for type %s)", pkg, name)
	}
	m := p.Type(name)
	if m == nil {
		e.abort("type %s.%s not found", pkg, name)
	}
	return m.Type()
}

// newError creates a distinct error object (*errors.errorString) with the given message.
func (e *Engine) newError(st *State, msg string) Value {
	t := types.NewPointer(e.typeOf("errors", "errorString"))
	p := e.alloc(st, &StructV{F: []Value{Str{S: msg}}})
	return Iface{T: t, V: p}
}

func tupleErr(v Value, err Value) Value { return Tuple{v, err} }

var nilErr = Iface{}

func strArg(v Value) (string, bool) {
	s, ok := v.(Str)
	if !ok || s.Code != nil || s.FNum != nil || s.Fmt != nil {
		return "", false
	}
	if s.Num != nil {
		if s.Num.IsConst() {
			return strconv.FormatInt(s.Num.SInt(), 10), true
		}
		return "", false
	}
	return s.S, true
}

// goValue converts a concrete Value (possibly boxed in an interface) to a Go value for fmt.
func goValue(v Value) (interface{}, bool) {
	switch x := v.(type) {
	case Iface:
		if x.T == nil {
			return nil, true
		}
		g, ok := goValue(x.V)
		if !ok {
			return nil, false
		}
		if t, isT := x.V.(*smt.Term); isT && t.Sort.K == smt.KBV {
			_, signed, _, _ := basicInfo(x.T)
			if !signed {
				return t.U, true
			}
		}
		return g, true
	case *smt.Term:
		if !x.IsConst() {
			return nil, false
		}
		switch x.Sort.K {
		case smt.KBool:
			return x.U == 1, true
		case smt.KBV:
			return x.SInt(), true
		default:
			return x.F, true
		}
	case Str:
		if x.Code != nil {
			return nil, false
		}
		return x.S, true
	}
	return nil, false
}

func (e *Engine) sliceElems(st *State, v Value) []Value {
	s, ok := v.(Slice)
	if !ok {
		e.abort("expected slice, got %T", v)
	}
	if s.Cell == 0 {
		return nil
	}
	return st.heap[s.Cell].(*ArrayV).E[s.Lo:s.Hi]
}

func (e *Engine) sprintf(st *State, format Value, args Value) Str {
	fs, ok := strArg(format)
	if !ok {
		return Str{S: "<fmt>"}
	}
	var gos []interface{}
	var syms []*smt.Term
	for _, a := range e.sliceElems(st, args) {
		g, ok := goValue(a)
		if !ok {
			// a symbolic integer under %d becomes a placeholder of a template string
			if iv, isI := a.(Iface); isI {
				if t, isT := iv.V.(*smt.Term); isT && t.Sort == smt.BV64 {
					syms = append(syms, t)
					gos = append(gos, symPlaceholder{})
					continue
				}
			}
			return Str{S: "<fmt:" + fs + ">"}
		}
		gos = append(gos, g)
	}
	if len(syms) > 0 {
		if strings.Count(fs, "%d") < len(syms) || strings.Contains(fs, "%v") || strings.Contains(fs, "%+v") {
			return Str{S: "<fmt:" + fs + ">"}
		}
		return Str{S: fmt.Sprintf(fs, gos...), Fmt: syms}
	}
	return Str{S: fmt.Sprintf(fs, gos...)}
}

// symPlaceholder renders as a NUL byte under any verb: the position of a symbolic integer.
type symPlaceholder struct{}

func (symPlaceholder) Format(f fmt.State, verb rune) { _, _ = f.Write([]byte{0}) }

func sortNetwork(ts []*smt.Term, signed bool) []*smt.Term {
	out := append([]*smt.Term(nil), ts...)
	n := len(out)
	allConst := true
	for _, t := range out {
		if !t.IsConst() {
			allConst = false
		}
	}
	if allConst {
		sort.Slice(out, func(i, j int) bool {
			if signed {
				return out[i].SInt() < out[j].SInt()
			}
			return out[i].U < out[j].U
		})
		return out
	}
	for i := 0; i < n; i++ {
		for j := 0; j+1 < n-i; j++ {
			a, b := out[j], out[j+1]
			var le *smt.Term
			if signed {
				le = smt.BVCmp(smt.OpBVSle, a, b)
			} else {
				le = smt.BVCmp(smt.OpBVUle, a, b)
			}
			out[j], out[j+1] = smt.Ite(le, a, b), smt.Ite(le, b, a)
		}
	}
	return out
}

func (e *Engine) sortIntSlice(st *State, v Value) {
	s := v.(Slice)
	if s.Cell == 0 || s.Hi-s.Lo < 2 {
		return
	}
	arr := st.heap[s.Cell].(*ArrayV)
	ts := make([]*smt.Term, s.Hi-s.Lo)
	for i := range ts {
		ts[i] = arr.E[s.Lo+i].(*smt.Term)
	}
	sorted := sortNetwork(ts, true)
	ne := make([]Value, len(arr.E))
	copy(ne, arr.E)
	for i, t := range sorted {
		ne[s.Lo+i] = t
	}
	st.heap[s.Cell] = &ArrayV{E: ne}
}

// asInt64 recognises float64 terms that are exact images of 64-bit integers: to_fp(signed bv) or
// an integer-valued constant below 2^53. int64->float64 conversion is monotone, so max and min
// commute with it and math.Max/Min of two such terms can be computed on the integers (no NaN, no
// infinities, no negative zero can occur).
func asInt64(t *smt.Term) (*smt.Term, bool) {
	if t.Op == smt.OpSBVToFP && t.Sort == smt.FP64 && t.Args[0].Sort.W == 64 {
		return t.Args[0], true
	}
	if t.IsConst() && t.Sort == smt.FP64 && t.F == math.Trunc(t.F) && math.Abs(t.F) < 9007199254740992 && !(t.F == 0 && math.Signbit(t.F)) {
		return smt.IntC(int64(t.F)), true
	}
	return nil, false
}

// Go's math.Max / math.Min special cases.
func goMax(x, y *smt.Term) *smt.Term {
	if a, ok := asInt64(x); ok {
		if b, ok := asInt64(y); ok {
			return smt.SBVToFP(smt.Ite(smt.Slt(a, b), b, a), smt.FP64)
		}
	}
	inf := smt.FPC(math.Inf(1))
	nan := smt.FPC(math.NaN())
	isPInf := func(t *smt.Term) *smt.Term { return smt.Eq(t, inf) }
	bothZero := smt.And(smt.FPPred(smt.OpFPIsZero, x), smt.FPPred(smt.OpFPIsZero, y))
	return smt.Ite(smt.Or(isPInf(x), isPInf(y)), inf,
		smt.Ite(smt.Or(smt.FPPred(smt.OpFPIsNaN, x), smt.FPPred(smt.OpFPIsNaN, y)), nan,
			smt.Ite(bothZero, smt.Ite(smt.FPPred(smt.OpFPIsNeg, x), y, x),
				smt.Ite(smt.FPCmp(smt.OpFPLt, y, x), x, y))))
}

func goMin(x, y *smt.Term) *smt.Term {
	if a, ok := asInt64(x); ok {
		if b, ok := asInt64(y); ok {
			return smt.SBVToFP(smt.Ite(smt.Slt(a, b), a, b), smt.FP64)
		}
	}
	ninf := smt.FPC(math.Inf(-1))
	nan := smt.FPC(math.NaN())
	isNInf := func(t *smt.Term) *smt.Term { return smt.Eq(t, ninf) }
	bothZero := smt.And(smt.FPPred(smt.OpFPIsZero, x), smt.FPPred(smt.OpFPIsZero, y))
	return smt.Ite(smt.Or(isNInf(x), isNInf(y)), ninf,
		smt.Ite(smt.Or(smt.FPPred(smt.OpFPIsNaN, x), smt.FPPred(smt.OpFPIsNaN, y)), nan,
			smt.Ite(bothZero, smt.Ite(smt.FPPred(smt.OpFPIsNeg, x), x, y),
				smt.Ite(smt.FPCmp(smt.OpFPLt, x, y), x, y))))
}

func noop(c *CallCtx, st *State, args []Value) []Outcome {
	return one(st, c.E.zeroResults(c.Fn))
}

func (e *Engine) reg(name string, ic Intercept) { e.icpt[name] = ic }

const utilPkg = RepoMod + "/internal/util"
const uiPkg = RepoMod + "/internal/ui"

func registerIntercepts(e *Engine) {
	registerZzv(e)
	registerFiles(e)
	registerExecModel(e)
	registerBoltModel(e)

	// ---- logging / notifications: no-ops; Fatal panics (pterm's checkFatal) ----
	for _, n := range []string{"SetDebugEnabled", "Print", "Printf", "Println", "Printfln", "Debug", "Success", "Info", "Warning",
		"WarningAndNotify", "Error", "ErrorAndNotify", "NotifyInfo", "NotifyError", "NotifyWarning"} {
		e.reg(uiPkg+"."+n, noop)
	}
	e.reg(uiPkg+".Fatal", func(c *CallCtx, st *State, args []Value) []Outcome {
		msg, _ := strArg(args[0])
		return []Outcome{{St: st, Panic: &PanicInfo{Kind: "fatal", Msg: "ui.Fatal: " + msg, Pos: callerName(c.Frame)}}}
	})
	e.reg(uiPkg+".FatalWithoutStacktrace", func(c *CallCtx, st *State, args []Value) []Outcome {
		msg, _ := strArg(args[0])
		return []Outcome{{St: st, Panic: &PanicInfo{Kind: "exit", Msg: "ui.FatalWithoutStacktrace (os.Exit): " + msg, Pos: callerName(c.Frame)}}}
	})
	for _, n := range []string{"fmt.Println", "fmt.Printf", "fmt.Print", "fmt.Fprintln", "fmt.Fprintf", "fmt.Fprint"} {
		e.reg(n, noop)
	}
	e.reg("fmt.Sprintf", func(c *CallCtx, st *State, args []Value) []Outcome {
		return one(st, c.E.sprintf(st, args[0], args[1]))
	})
	e.reg("fmt.Sprint", func(c *CallCtx, st *State, args []Value) []Outcome { return one(st, Str{S: "<sprint>"}) })
	e.reg("fmt.Errorf", func(c *CallCtx, st *State, args []Value) []Outcome {
		s := c.E.sprintf(st, args[0], args[1])
		return one(st, c.E.newError(st, s.S))
	})
	e.reg("errors.New", func(c *CallCtx, st *State, args []Value) []Outcome {
		s, _ := strArg(args[0])
		return one(st, c.E.newError(st, s))
	})
	e.reg("errors.Is", func(c *CallCtx, st *State, args []Value) []Outcome {
		return one(st, c.E.valEq(args[0], args[1]))
	})
	// errors.As(err, &target) for a target of concrete pointer type: dynamic type identity
	// (none of the modelled errors wraps another one)
	e.reg("errors.As", func(c *CallCtx, st *State, args []Value) []Outcome {
		err, ok1 := args[0].(Iface)
		tgt, ok2 := args[1].(Iface)
		if !ok1 || !ok2 || tgt.T == nil {
			c.E.abort("errors.As with unsupported arguments")
		}
		pt, ok := under(tgt.T).(*types.Pointer)
		if !ok {
			c.E.abort("errors.As target is not a pointer")
		}
		if err.T == nil {
			return one(st, smt.False)
		}
		if _, isIface := under(pt.Elem()).(*types.Interface); isIface {
			c.E.abort("errors.As with an interface target is not modelled")
		}
		if types.Identical(err.T, pt.Elem()) {
			st.Store(tgt.V.(Ptr), err.V)
			return one(st, smt.True)
		}
		return one(st, smt.False)
	})
	e.reg("os.IsNotExist", func(c *CallCtx, st *State, args []Value) []Outcome {
		ne := st.Load(c.E.globalPtr(st, c.E.Pkgs["io/fs"].Var("ErrNotExist")))
		return one(st, c.E.valEq(args[0], ne))
	})

	// ---- time ----
	e.reg("time.Sleep", noop)
	// Virtual clock: (seconds, milliseconds) pairs, advanced only by zzv.ClockStep. A Time carries the
	// pair; Sub produces the nanosecond count together with its (seconds, milliseconds) decomposition,
	// so that Duration.Seconds() can be computed exactly as the standard library does
	// (float64(sec) + float64(nsec)/1e9) without a 64-bit division by 10^9.
	e.reg("time.Now", func(c *CallCtx, st *State, args []Value) []Outcome {
		en := c.E
		sc := en.namedCell(st, "clock.sec", func() Value { return smt.IntC(1700000000) })
		mc := en.namedCell(st, "clock.ms", func() Value { return smt.BVC(0, 64) })
		t := Zero(en.typeOf("time", "Time")).(*StructV)
		nf := append([]Value(nil), t.F...)
		nf[0] = st.heap[mc]
		nf[1] = st.heap[sc]
		return one(st, &StructV{F: nf})
	})
	e.reg("(time.Time).IsZero", func(c *CallCtx, st *State, args []Value) []Outcome {
		t := args[0].(*StructV)
		// only the literal zero value Time{} is zero: instants of the virtual clock start at
		// 1700000000 s and only move forward (ClockStep arguments are non-negative)
		if sec := t.F[1].(*smt.Term); !sec.IsConst() {
			return one(st, smt.False)
		}
		return one(st, smt.And(smt.Eq(t.F[0].(*smt.Term), smt.BVC(0, 64)), smt.Eq(t.F[1].(*smt.Term), smt.IntC(0))))
	})
	e.reg("(time.Time).Sub", func(c *CallCtx, st *State, args []Value) []Outcome {
		t, u := args[0].(*StructV), args[1].(*StructV)
		// components are kept as plain sums (no carry): the difference cancels everything both
		// instants share, e.g. (t0 + a + tick) - (t0 + a) = tick
		ds := smt.LinNorm(smt.Sub(t.F[1].(*smt.Term), u.F[1].(*smt.Term)))
		dm := smt.LinNorm(smt.Sub(t.F[0].(*smt.Term), u.F[0].(*smt.Term)))
		d := smt.Add(smt.BVBin(smt.OpBVMul, ds, smt.IntC(1000000000)), smt.BVBin(smt.OpBVMul, dm, smt.IntC(1000000)))
		c.E.durParts[d] = [2]*smt.Term{ds, dm}
		return one(st, d)
	})
	e.reg("(time.Duration).Seconds", func(c *CallCtx, st *State, args []Value) []Outcome {
		d := args[0].(*smt.Term)
		p, ok := c.E.durParts[d]
		if !ok {
			if d.IsConst() {
				return one(st, smt.FPC(float64(d.SInt()/1000000000)+float64(d.SInt()%1000000000)/1e9))
			}
			c.E.abort("Duration.Seconds() of a duration that does not come from the virtual clock")
		}
		// the millisecond component may have accumulated several steps: carry up to 8 seconds
		// (a harness makes a handful of ClockStep calls with ms < 1000 each) and borrow one
		ds, dm := p[0], p[1]
		sec, ms := smt.Sub(ds, smt.IntC(1)), smt.Add(dm, smt.IntC(1000))
		for k := int64(0); k <= 8; k++ {
			inBand := smt.And(smt.Sle(smt.IntC(1000*k), dm), smt.Slt(dm, smt.IntC(1000*(k+1))))
			sec = smt.Ite(inBand, smt.Add(ds, smt.IntC(k)), sec)
			ms = smt.Ite(inBand, smt.Sub(dm, smt.IntC(1000*k)), ms)
		}
		nsec := smt.BVBin(smt.OpBVMul, ms, smt.IntC(1000000))
		return one(st, smt.FPBin(smt.OpFPAdd, smt.SBVToFP(sec, smt.FP64), smt.FPBin(smt.OpFPDiv, smt.SBVToFP(nsec, smt.FP64), smt.FPC(1e9))))
	})
	e.reg("time.NewTicker", func(c *CallCtx, st *State, args []Value) []Outcome {
		en := c.E
		t := Zero(en.typeOf("time", "Ticker")).(*StructV)
		nf := append([]Value(nil), t.F...)
		nf[0] = Chan{ID: en.newCell(), Kind: "ticker"}
		return one(st, en.alloc(st, &StructV{F: nf}))
	})
	e.reg("(*time.Ticker).Stop", noop)
	// time.After / time.Tick: a channel that is ready whenever a select looks at it
	after := func(c *CallCtx, st *State, args []Value) []Outcome {
		return one(st, Chan{ID: c.E.newCell(), Kind: "after"})
	}
	e.reg("time.After", after)
	e.reg("time.Tick", after)
	e.reg("time.NewTimer", func(c *CallCtx, st *State, args []Value) []Outcome {
		en := c.E
		t := Zero(en.typeOf("time", "Timer")).(*StructV)
		nf := append([]Value(nil), t.F...)
		nf[0] = Chan{ID: en.newCell(), Kind: "after"}
		return one(st, en.alloc(st, &StructV{F: nf}))
	})
	e.reg("(*time.Timer).Stop", func(c *CallCtx, st *State, args []Value) []Outcome { return one(st, smt.True) })
	e.reg("time.AfterFunc", func(c *CallCtx, st *State, args []Value) []Outcome { return one(st, Ptr{}) })

	// ---- sync ----
	// sync.Mutex: ghost owner flag per mutex: 0 free, 1 held by the code under test, 2 held by
	// somebody else (zzv.MutexHoldByOther). Lock on 2 returns after the other holder released it.
	mutexCell := func(c *CallCtx, st *State, v Value) int {
		p := v.(Ptr)
		return c.E.namedCell(st, fmt.Sprintf("mutex:%d%v", p.Cell, p.Path), func() Value { return smt.IntC(0) })
	}
	lock := func(v int64) Intercept {
		return func(c *CallCtx, st *State, args []Value) []Outcome {
			cell := mutexCell(c, st, args[0])
			if v == 1 && st.heap[cell].(*smt.Term).SInt() == 1 {
				// Lock of a mutex the (single) code under test already holds and never released: it blocks for ever
				return []Outcome{{St: st, Panic: &PanicInfo{Kind: "deadlock", Msg: "sync.Mutex.Lock on a mutex that is still held by the same code (never unlocked on an earlier path)"}}}
			}
			st.heap[cell] = smt.IntC(v)
			return one(st, nil)
		}
	}
	e.reg("(*sync.Mutex).Lock", lock(1))
	e.reg("(*sync.Mutex).Unlock", lock(0))
	e.reg("(*sync.Mutex).TryLock", func(c *CallCtx, st *State, args []Value) []Outcome {
		cell := mutexCell(c, st, args[0])
		if st.heap[cell].(*smt.Term).SInt() == 0 {
			st.heap[cell] = smt.IntC(1)
			return one(st, smt.True)
		}
		return one(st, smt.False)
	})
	e.reg(ZzvPath+".MutexHoldByOther", func(c *CallCtx, st *State, args []Value) []Outcome {
		st.heap[mutexCell(c, st, args[0])] = smt.IntC(2)
		return one(st, nil)
	})
	// sync.Map: an association list per map object (keys compared with ==)
	syncMapCell := func(c *CallCtx, st *State, v Value) int {
		p := v.(Ptr)
		return c.E.namedCell(st, fmt.Sprintf("syncmap:%d%v", p.Cell, p.Path), func() Value { return &MapData{} })
	}
	syncMapLoad := func(c *CallCtx, st *State, args []Value) []Outcome {
		md := st.heap[syncMapCell(c, st, args[0])].(*MapData)
		var outs []Outcome
		cur := st
		for _, en := range md.Ent {
			hit := smt.And(en.Live, c.E.valEq(en.K, args[1]))
			if hit.IsFalse() {
				continue
			}
			if hit.IsTrue() {
				outs = append(outs, Outcome{St: cur, Ret: Tuple{en.V, smt.True}})
				cur = nil
				break
			}
			if c.E.feasible(cur, hit) {
				h := cur.Clone()
				h.Assume(hit)
				outs = append(outs, Outcome{St: h, Ret: Tuple{en.V, smt.True}})
			}
			cur.Assume(smt.Not(hit))
		}
		if cur != nil && !cur.Infeasible() {
			outs = append(outs, Outcome{St: cur, Ret: Tuple{Iface{}, smt.False}})
		}
		return outs
	}
	e.reg("(*sync.Map).Load", syncMapLoad)
	e.reg("(*sync.Map).Store", func(c *CallCtx, st *State, args []Value) []Outcome {
		cell := syncMapCell(c, st, args[0])
		md := st.heap[cell].(*MapData)
		ne := make([]MapEnt, 0, len(md.Ent)+1)
		for _, en := range md.Ent {
			hit := smt.And(en.Live, c.E.valEq(en.K, args[1]))
			if hit.IsTrue() || (!hit.IsFalse() && !c.E.feasible(st, smt.Not(hit))) {
				continue // replaced
			}
			if !hit.IsFalse() && c.E.feasible(st, hit) {
				c.E.abort("sync.Map.Store with a key that may or may not equal an existing key is not modelled")
			}
			ne = append(ne, en)
		}
		ne = append(ne, MapEnt{K: args[1], V: args[2], Live: smt.True})
		st.heap[cell] = &MapData{Ent: ne}
		return one(st, nil)
	})
	e.reg("(*sync.Map).Delete", func(c *CallCtx, st *State, args []Value) []Outcome {
		cell := syncMapCell(c, st, args[0])
		md := st.heap[cell].(*MapData)
		ne := make([]MapEnt, len(md.Ent))
		for i, en := range md.Ent {
			ne[i] = en
			ne[i].Live = smt.And(en.Live, smt.Not(c.E.valEq(en.K, args[1])))
		}
		st.heap[cell] = &MapData{Ent: ne}
		return one(st, nil)
	})
	e.reg("(*sync.RWMutex).Lock", lock(1))
	e.reg("(*sync.RWMutex).Unlock", lock(0))
	e.reg("(*sync.RWMutex).RLock", noop)
	e.reg("(*sync.RWMutex).RUnlock", noop)

	// ---- sorting ----
	e.reg("sort.Ints", func(c *CallCtx, st *State, args []Value) []Outcome {
		c.E.sortIntSlice(st, args[0])
		return one(st, nil)
	})
	e.reg(utilPkg+".sortSlice", func(c *CallCtx, st *State, args []Value) []Outcome {
		c.E.sortIntSlice(st, args[0])
		return one(st, nil)
	})

	// ---- math ----
	un := func(f func(*smt.Term) *smt.Term) Intercept {
		return func(c *CallCtx, st *State, args []Value) []Outcome { return one(st, f(args[0].(*smt.Term))) }
	}
	e.reg("math.Round", un(func(x *smt.Term) *smt.Term { return smt.FPRound(smt.RNA, x) }))
	e.reg("math.Ceil", un(func(x *smt.Term) *smt.Term { return smt.FPRound(smt.RTP, x) }))
	e.reg("math.Floor", un(func(x *smt.Term) *smt.Term { return smt.FPRound(smt.RTN, x) }))
	e.reg("math.Trunc", un(func(x *smt.Term) *smt.Term { return smt.FPRound(smt.RTZ, x) }))
	e.reg("math.Abs", un(func(x *smt.Term) *smt.Term { return smt.FPUn(smt.OpFPAbs, x) }))
	// math.Copysign(x, y): |x| with the sign of y (for a NaN y the sign bit is not modelled: positive)
	e.reg("math.Copysign", func(c *CallCtx, st *State, args []Value) []Outcome {
		x, y := args[0].(*smt.Term), args[1].(*smt.Term)
		ax := smt.FPUn(smt.OpFPAbs, x)
		return one(st, smt.Ite(smt.FPPred(smt.OpFPIsNeg, y), smt.FPUn(smt.OpFPNeg, ax), ax))
	})
	e.reg("math.IsNaN", un(func(x *smt.Term) *smt.Term { return smt.FPPred(smt.OpFPIsNaN, x) }))
	e.reg("math.NaN", func(c *CallCtx, st *State, args []Value) []Outcome { return one(st, smt.FPC(math.NaN())) })
	e.reg("math.Inf", func(c *CallCtx, st *State, args []Value) []Outcome {
		s := args[0].(*smt.Term)
		return one(st, smt.Ite(smt.Sle(smt.IntC(0), s), smt.FPC(math.Inf(1)), smt.FPC(math.Inf(-1))))
	})
	e.reg("math.IsInf", func(c *CallCtx, st *State, args []Value) []Outcome {
		x, s := args[0].(*smt.Term), args[1].(*smt.Term)
		pos := smt.Eq(x, smt.FPC(math.Inf(1)))
		neg := smt.Eq(x, smt.FPC(math.Inf(-1)))
		return one(st, smt.Or(smt.And(smt.Sle(smt.IntC(0), s), pos), smt.And(smt.Sle(s, smt.IntC(0)), neg)))
	})
	e.reg("math.Max", func(c *CallCtx, st *State, args []Value) []Outcome {
		return one(st, goMax(args[0].(*smt.Term), args[1].(*smt.Term)))
	})
	e.reg("math.Min", func(c *CallCtx, st *State, args []Value) []Outcome {
		return one(st, goMin(args[0].(*smt.Term), args[1].(*smt.Term)))
	})

	// ---- strings / strconv / path (concrete natively; symbolic ids never look like paths) ----
	e.reg("strings.HasPrefix", func(c *CallCtx, st *State, args []Value) []Outcome {
		a, ok1 := strArg(args[0])
		b, ok2 := strArg(args[1])
		if !ok1 || !ok2 {
			return one(st, smt.False)
		}
		return one(st, smt.BoolC(strings.HasPrefix(a, b)))
	})
	e.reg("strings.TrimSpace", func(c *CallCtx, st *State, args []Value) []Outcome {
		a, ok := strArg(args[0])
		if !ok {
			return one(st, args[0])
		}
		return one(st, Str{S: strings.TrimSpace(a)})
	})
	e.reg("strings.Trim", func(c *CallCtx, st *State, args []Value) []Outcome {
		a, ok1 := strArg(args[0])
		b, ok2 := strArg(args[1])
		if !ok1 || !ok2 {
			return one(st, args[0])
		}
		return one(st, Str{S: strings.Trim(a, b)})
	})
	e.reg("strings.ReplaceAll", func(c *CallCtx, st *State, args []Value) []Outcome {
		a, ok1 := strArg(args[0])
		b, ok2 := strArg(args[1])
		d, ok3 := strArg(args[2])
		if ok1 && ok2 && !ok3 && a == b {
			return one(st, args[2]) // the whole argument is the placeholder
		}
		if ok1 && ok2 && !strings.Contains(a, b) {
			return one(st, args[0])
		}
		if !ok1 || !ok2 || !ok3 {
			return one(st, Str{S: "<replaceall>"})
		}
		return one(st, Str{S: strings.ReplaceAll(a, b, d)})
	})
	e.reg("strings.Join", func(c *CallCtx, st *State, args []Value) []Outcome {
		var parts []string
		for _, v := range c.E.sliceElems(st, args[0]) {
			s, ok := strArg(v)
			if !ok {
				return one(st, Str{S: "<join>"})
			}
			parts = append(parts, s)
		}
		sep, _ := strArg(args[1])
		return one(st, Str{S: strings.Join(parts, sep)})
	})
	// further pure string helpers, evaluated natively on concrete operands
	str2bool := func(name string, f func(a, b string) bool) {
		e.reg(name, func(c *CallCtx, st *State, args []Value) []Outcome {
			a, ok1 := strArg(args[0])
			b, ok2 := strArg(args[1])
			if !ok1 || !ok2 {
				c.E.abort("%s on a symbolic string is not modelled", name)
			}
			return one(st, smt.BoolC(f(a, b)))
		})
	}
	str2bool("strings.Contains", strings.Contains)
	str2bool("strings.HasSuffix", strings.HasSuffix)
	str2bool("strings.EqualFold", strings.EqualFold)
	// EqualFold with a symbolic identifier: decided over the identifier family (code 0 = "")
	e.reg("strings.EqualFold", func(c *CallCtx, st *State, args []Value) []Outcome {
		a, b := args[0].(Str), args[1].(Str)
		sa, oka := strArg(a)
		sb, okb := strArg(b)
		if oka && okb {
			return one(st, smt.BoolC(strings.EqualFold(sa, sb)))
		}
		const maxID = 8
		name := func(i int) string {
			if i == 0 {
				return ""
			}
			return IdName(i)
		}
		is := func(x Str, okx bool, sx string, i int) *smt.Term {
			if okx {
				return smt.BoolC(sx == name(i))
			}
			return smt.Eq(x.Code, smt.IntC(int64(i)))
		}
		res := smt.False
		for i := 0; i <= maxID; i++ {
			for j := 0; j <= maxID; j++ {
				if strings.EqualFold(name(i), name(j)) {
					res = smt.Or(res, smt.And(is(a, oka, sa, i), is(b, okb, sb, j)))
				}
			}
		}
		// a concrete operand outside the family can only match itself case-insensitively
		if oka != okb {
			conc, sym := sa, b
			if okb {
				conc, sym = sb, a
			}
			for i := 0; i <= maxID; i++ {
				if name(i) != conc && strings.EqualFold(name(i), conc) {
					res = smt.Or(res, smt.Eq(sym.Code, smt.IntC(int64(i))))
				}
			}
		}
		return one(st, res)
	})
	str2int := func(name string, f func(a, b string) int) {
		e.reg(name, func(c *CallCtx, st *State, args []Value) []Outcome {
			a, ok1 := strArg(args[0])
			b, ok2 := strArg(args[1])
			if !ok1 || !ok2 {
				c.E.abort("%s on a symbolic string is not modelled", name)
			}
			return one(st, smt.IntC(int64(f(a, b))))
		})
	}
	str2int("strings.Index", strings.Index)
	str2int("strings.LastIndex", strings.LastIndex)
	str2int("strings.Count", strings.Count)
	str2str := func(name string, f func(a, b string) string) {
		e.reg(name, func(c *CallCtx, st *State, args []Value) []Outcome {
			a, ok1 := strArg(args[0])
			b, ok2 := strArg(args[1])
			if !ok1 || !ok2 {
				return one(st, args[0])
			}
			return one(st, Str{S: f(a, b)})
		})
	}
	str2str("strings.TrimPrefix", strings.TrimPrefix)
	str2str("strings.TrimSuffix", strings.TrimSuffix)
	str2str("strings.TrimLeft", strings.TrimLeft)
	str2str("strings.TrimRight", strings.TrimRight)
	str1 := func(name string, f func(a string) string) {
		e.reg(name, func(c *CallCtx, st *State, args []Value) []Outcome {
			a, ok := strArg(args[0])
			if !ok {
				return one(st, args[0])
			}
			return one(st, Str{S: f(a)})
		})
	}
	str1("strings.ToLower", strings.ToLower)
	str1("strings.ToUpper", strings.ToUpper)
	strSplit := func(name string, f func(a string) []string) {
		e.reg(name, func(c *CallCtx, st *State, args []Value) []Outcome {
			a, ok := strArg(args[0])
			if !ok {
				c.E.abort("%s on a symbolic string is not modelled", name)
			}
			parts := f(a)
			el := make([]Value, len(parts))
			for i, p := range parts {
				el[i] = Str{S: p}
			}
			cell := c.E.newCell()
			st.heap[cell] = &ArrayV{E: el}
			return one(st, Slice{Cell: cell, Lo: 0, Hi: len(el), Cap: len(el)})
		})
	}
	strSplit("strings.Fields", strings.Fields)
	e.reg("strings.Split", func(c *CallCtx, st *State, args []Value) []Outcome {
		a, ok1 := strArg(args[0])
		b, ok2 := strArg(args[1])
		if !ok1 || !ok2 {
			c.E.abort("strings.Split on a symbolic string is not modelled")
		}
		parts := strings.Split(a, b)
		el := make([]Value, len(parts))
		for i, p := range parts {
			el[i] = Str{S: p}
		}
		cell := c.E.newCell()
		st.heap[cell] = &ArrayV{E: el}
		return one(st, Slice{Cell: cell, Lo: 0, Hi: len(el), Cap: len(el)})
	})
	e.reg("strconv.Itoa", func(c *CallCtx, st *State, args []Value) []Outcome {
		t := args[0].(*smt.Term)
		if t.IsConst() {
			return one(st, Str{S: strconv.Itoa(int(t.SInt()))})
		}
		return one(st, Str{Num: t})
	})
	// strconv.ParseFloat / Atoi: concrete text natively; the decimal rendering of an integer term
	// parses back to that integer; an opaque text (command output) parses to any float64
	// including NaN and +-Inf, or fails.
	e.reg("strconv.ParseFloat", func(c *CallCtx, st *State, args []Value) []Outcome {
		s := args[0].(Str)
		if s.Num != nil {
			return one(st, Tuple{smt.SBVToFP(s.Num, smt.FP64), nilErr})
		}
		if s.FNum != nil {
			return one(st, Tuple{s.FNum, nilErr})
		}
		if txt, ok := strArg(s); ok && !strings.HasPrefix(txt, "<") {
			f, err := strconv.ParseFloat(txt, 64)
			if err != nil {
				return one(st, Tuple{smt.FPC(f), c.E.newError(st, err.Error())})
			}
			return one(st, Tuple{smt.FPC(f), nilErr})
		}
		bad := st.Clone()
		v := c.E.nondet(st, "parsefloat", smt.FP64)
		return []Outcome{{St: st, Ret: Tuple{v, nilErr}}, {St: bad, Ret: Tuple{smt.FPC(0), c.E.newError(bad, "strconv.ParseFloat: invalid syntax")}}}
	})
	e.reg("strconv.Atoi", func(c *CallCtx, st *State, args []Value) []Outcome {
		s := args[0].(Str)
		if s.Num != nil {
			return one(st, Tuple{s.Num, nilErr})
		}
		if txt, ok := strArg(s); ok && !strings.HasPrefix(txt, "<") {
			i, err := strconv.Atoi(txt)
			if err != nil {
				return one(st, Tuple{smt.IntC(int64(i)), c.E.newError(st, err.Error())})
			}
			return one(st, Tuple{smt.IntC(int64(i)), nilErr})
		}
		bad := st.Clone()
		v := c.E.nondet(st, "atoi", smt.BV64)
		return []Outcome{{St: st, Ret: Tuple{v, nilErr}}, {St: bad, Ret: Tuple{smt.IntC(0), c.E.newError(bad, "strconv.Atoi: invalid syntax")}}}
	})
	// PidLoop.Loop: real body unless the harness asked for a havoc of its result
	e.reg("(*"+utilPkg+".PidLoop).Loop", func(c *CallCtx, st *State, args []Value) []Outcome {
		cell := c.E.namedCell(st, "havoc:pid.loop", func() Value { return smt.False })
		if st.heap[cell].(*smt.Term).IsTrue() {
			return one(st, c.E.nondet(st, "pid.loop", smt.FP64))
		}
		return c.E.execFuncFV(st, c.Fn, args, nil)
	})
	joinFn := func(join func(...string) string) Intercept {
		return func(c *CallCtx, st *State, args []Value) []Outcome {
			var parts []string
			var syms []*smt.Term
			for _, v := range c.E.sliceElems(st, args[0]) {
				if sv, isS := v.(Str); isS && sv.Fmt != nil {
					parts = append(parts, sv.S)
					syms = append(syms, sv.Fmt...)
					continue
				}
				s, ok := strArg(v)
				if !ok {
					return one(st, Str{S: "<pathjoin>"})
				}
				parts = append(parts, s)
			}
			if syms != nil {
				return one(st, Str{S: join(parts...), Fmt: syms})
			}
			return one(st, Str{S: join(parts...)})
		}
	}
	e.reg("path.Base", func(c *CallCtx, st *State, args []Value) []Outcome {
		a, ok := strArg(args[0])
		if !ok {
			return one(st, Str{S: "<pathbase>"})
		}
		return one(st, Str{S: path.Base(a)})
	})
	// os.ReadFile: label / name / modalias files of the fake hwmon tree do not exist
	e.reg("os.ReadFile", func(c *CallCtx, st *State, args []Value) []Outcome {
		p, _ := strArg(args[0])
		if cell, ok := c.E.named["text:"+p]; ok {
			if v, ok := st.heap[cell]; ok {
				txt := v.(Str).S
				el := make([]Value, len(txt))
				for i := 0; i < len(txt); i++ {
					el[i] = smt.BVC(uint64(txt[i]), 8)
				}
				bc := c.E.newCell()
				st.heap[bc] = &ArrayV{E: el}
				return one(st, Tuple{Slice{Cell: bc, Lo: 0, Hi: len(txt), Cap: len(txt)}, nilErr})
			}
		}
		return one(st, Tuple{Slice{}, c.E.newError(st, "open "+p+": no such file or directory")})
	})
	// os.WriteFile / natefinch atomic.WriteFile (RealFileIO harnesses): the file then holds that text
	e.reg("os.WriteFile", func(c *CallCtx, st *State, args []Value) []Outcome {
		p, _ := strArg(args[0])
		cell := c.E.namedCell(st, "text:"+p, func() Value { return Str{} })
		st.heap[cell] = Str{S: c.E.bytesToString(st, args[1], "os.WriteFile data")}
		return one(st, nilErr)
	})
	e.reg("github.com/natefinch/atomic.WriteFile", func(c *CallCtx, st *State, args []Value) []Outcome {
		p, _ := strArg(args[0])
		iv, ok := args[1].(Iface)
		if !ok || iv.T == nil || iv.T.String() != "*strings.Reader" {
			c.E.abort("atomic.WriteFile: only a *strings.Reader source is modelled")
		}
		rd := st.Load(iv.V.(Ptr)).(*StructV)
		txt, ok := strArg(rd.F[0])
		if !ok {
			c.E.abort("atomic.WriteFile: symbolic text is not modelled")
		}
		cell := c.E.namedCell(st, "text:"+p, func() Value { return Str{} })
		st.heap[cell] = Str{S: txt}
		return one(st, nilErr)
	})
	// fmt.Sscanf on a concrete string with %d verbs into *int arguments
	e.reg("fmt.Sscanf", func(c *CallCtx, st *State, args []Value) []Outcome {
		str, ok1 := strArg(args[0])
		format, ok2 := strArg(args[1])
		if !ok1 || !ok2 {
			c.E.abort("fmt.Sscanf on symbolic operands is not modelled")
		}
		ptrs := c.E.sliceElems(st, args[2])
		vals := make([]int, len(ptrs))
		dst := make([]interface{}, len(ptrs))
		for i := range vals {
			dst[i] = &vals[i]
		}
		n, err := fmt.Sscanf(str, format, dst...)
		for i := 0; i < n && i < len(ptrs); i++ {
			iv, ok := ptrs[i].(Iface)
			if !ok {
				c.E.abort("fmt.Sscanf: unsupported destination")
			}
			st.Store(iv.V.(Ptr), smt.IntC(int64(vals[i])))
		}
		if err != nil {
			return one(st, Tuple{smt.IntC(int64(n)), c.E.newError(st, err.Error())})
		}
		return one(st, Tuple{smt.IntC(int64(n)), nilErr})
	})
	e.reg("path.Join", joinFn(path.Join))
	e.reg("path/filepath.Join", joinFn(filepath.Join))
	e.reg("regexp.MatchString", func(c *CallCtx, st *State, args []Value) []Outcome {
		p, ok1 := strArg(args[0])
		s, ok2 := strArg(args[1])
		if !ok1 || !ok2 {
			c.E.abort("regexp.MatchString on symbolic operands is not modelled")
		}
		// harness convention: a pattern "(?i)zzre:<name>" matches by a symbolic Boolean per (pattern, subject)
		if strings.HasPrefix(p, "(?i)zzre:") || strings.HasPrefix(p, "zzre:") {
			v := smt.Var(st.uniqueName("regex:"+strings.TrimPrefix(p, "(?i)")+"~"+s), smt.Bool)
			st.nondets = append(st.nondets, v)
			return one(st, Tuple{v, nilErr})
		}
		m, err := regexp.MatchString(p, s)
		if err != nil {
			return one(st, Tuple{smt.False, c.E.newError(st, err.Error())})
		}
		return one(st, Tuple{smt.BoolC(m), nilErr})
	})

	// ---- concurrent-map registries ----
	const cm = "github.com/orcaman/concurrent-map/v2."
	e.reg(cm+"New", func(c *CallCtx, st *State, args []Value) []Outcome {
		z := c.E.zeroResults(c.Fn).(*StructV)
		nf := append([]Value(nil), z.F...)
		cell := c.E.newCell()
		st.heap[cell] = &MapData{}
		nf[0] = MapRef{Cell: cell}
		return one(st, &StructV{F: nf})
	})
	regMap := func(v Value) (MapRef, bool) {
		s, ok := v.(*StructV)
		if !ok {
			return MapRef{}, false
		}
		m, ok := s.F[0].(MapRef)
		return m, ok && m.Cell != 0
	}
	e.reg("(github.com/orcaman/concurrent-map/v2.ConcurrentMap).Set", func(c *CallCtx, st *State, args []Value) []Outcome {
		m, ok := regMap(args[0])
		if !ok {
			c.E.abort("registry used before initialisation (package init not run?)")
		}
		c.E.mapUpdate(st, m, args[1], args[2])
		return one(st, nil)
	})
	e.reg("(github.com/orcaman/concurrent-map/v2.ConcurrentMap).Get", func(c *CallCtx, st *State, args []Value) []Outcome {
		m, ok := regMap(args[0])
		res := c.Fn.Signature.Results()
		zero := Zero(res.At(0).Type())
		if !ok {
			return one(st, Tuple{zero, smt.False})
		}
		md := st.heap[m.Cell].(*MapData)
		var outs []Outcome
		cur := st
		for _, en := range md.Ent {
			hit := smt.And(en.Live, c.E.valEq(en.K, args[1]))
			if hit.IsFalse() {
				continue
			}
			if hit.IsTrue() {
				outs = append(outs, Outcome{St: cur, Ret: Tuple{en.V, smt.True}})
				cur = nil
				break
			}
			if c.E.feasible(cur, hit) {
				h := cur.Clone()
				h.Assume(hit)
				outs = append(outs, Outcome{St: h, Ret: Tuple{en.V, smt.True}})
			}
			cur.Assume(smt.Not(hit))
		}
		if cur != nil && !cur.Infeasible() {
			outs = append(outs, Outcome{St: cur, Ret: Tuple{zero, smt.False}})
		}
		return outs
	})
	e.reg("(github.com/orcaman/concurrent-map/v2.ConcurrentMap).Items", func(c *CallCtx, st *State, args []Value) []Outcome {
		m, ok := regMap(args[0])
		if !ok {
			return one(st, MapRef{})
		}
		cell := c.E.newCell()
		st.heap[cell] = st.heap[m.Cell]
		return one(st, MapRef{Cell: cell})
	})
}
