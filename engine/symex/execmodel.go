package symex

import (
	"go/types"

	"fgsym/smt"
)

// Models for file metadata (os.Stat / filepath.EvalSymlinks) and process execution
// (context.WithTimeout, exec.CommandContext, (*exec.Cmd).Output) used by the C18/C19 harnesses.

type statRec struct {
	exists, uid, gid, mode *smt.Term
}

func fieldIndex(t types.Type, name string) int {
	st := under(t).(*types.Struct)
	for i := 0; i < st.NumFields(); i++ {
		if st.Field(i).Name() == name {
			return i
		}
	}
	return -1
}

func (e *Engine) statCell(st *State) int {
	return e.namedCell(st, "stat", func() Value { return &MapData{} })
}

func (e *Engine) linkCell(st *State) int {
	return e.namedCell(st, "symlinks", func() Value { return &MapData{} })
}

func (e *Engine) resolveLink(st *State, p string) string {
	md := st.heap[e.linkCell(st)].(*MapData)
	for i := 0; i < 8; i++ {
		found := false
		for _, en := range md.Ent {
			if en.K.(Str).S == p {
				p = en.V.(Str).S
				found = true
				break
			}
		}
		if !found {
			break
		}
	}
	return p
}

func (e *Engine) statLookup(st *State, p string) (*StructV, bool) {
	md := st.heap[e.statCell(st)].(*MapData)
	for _, en := range md.Ent {
		if en.K.(Str).S == p {
			return en.V.(*StructV), true
		}
	}
	return nil, false
}

func registerExecModel(e *Engine) {
	z := ZzvPath + "."
	e.reg(z+"StatPut", func(c *CallCtx, st *State, args []Value) []Outcome {
		p := c.E.pathArg(args[0], "StatPut")
		rec := &StructV{F: []Value{args[1], args[2], args[3], args[4]}}
		c.E.mapUpdate(st, MapRef{Cell: c.E.statCell(st)}, Str{S: p}, rec)
		return one(st, nil)
	})
	e.reg(z+"SymlinkPut", func(c *CallCtx, st *State, args []Value) []Outcome {
		l := c.E.pathArg(args[0], "SymlinkPut")
		t := c.E.pathArg(args[1], "SymlinkPut")
		c.E.mapUpdate(st, MapRef{Cell: c.E.linkCell(st)}, Str{S: l}, Str{S: t})
		return one(st, nil)
	})
	e.reg(z+"Executed", func(c *CallCtx, st *State, args []Value) []Outcome {
		p := c.E.pathArg(args[0], "Executed")
		cell := c.E.namedCell(st, "executed:"+p, func() Value { return smt.False })
		return one(st, st.heap[cell])
	})
	e.reg(z+"ExecStarts", func(c *CallCtx, st *State, args []Value) []Outcome {
		p := c.E.pathArg(args[0], "ExecStarts")
		cell := c.E.namedCell(st, "starts:"+p, func() Value { return smt.IntC(0) })
		return one(st, st.heap[cell])
	})
	e.reg(z+"RealCommands", func(c *CallCtx, st *State, args []Value) []Outcome {
		cell := c.E.namedCell(st, "cmd:real", func() Value { return smt.False })
		st.heap[cell] = smt.True
		return one(st, nil)
	})
	e.reg(z+"ResetExecuted", func(c *CallCtx, st *State, args []Value) []Outcome {
		p := c.E.pathArg(args[0], "ResetExecuted")
		cell := c.E.namedCell(st, "executed:"+p, func() Value { return smt.False })
		st.heap[cell] = smt.False
		return one(st, nil)
	})
	e.reg(z+"ExecScenarioStderr", func(c *CallCtx, st *State, args []Value) []Outcome {
		p := c.E.pathArg(args[0], "ExecScenario")
		cell := c.E.namedCell(st, "scenario:"+p, func() Value { return Tuple{smt.IntC(0), Str{}, Str{}} })
		st.heap[cell] = Tuple{args[1], args[2], args[3]}
		// the prepared command is root-owned, mode 0755 (0644 for the cannot-start scenario)
		sc := args[1].(*smt.Term)
		mode := smt.Ite(smt.Eq(sc, smt.IntC(2)), smt.BVC(0o644, 32), smt.BVC(0o755, 32))
		rec := &StructV{F: []Value{smt.True, smt.BVC(0, 32), smt.BVC(0, 32), mode}}
		c.E.mapUpdate(st, MapRef{Cell: c.E.statCell(st)}, Str{S: p}, rec)
		return one(st, nil)
	})

	// oklog/run.Group.Run: the actors are executed one after the other (no interleaving), but every
	// actor is tried as "the first one to return": its result is passed to every interrupt function,
	// then the remaining actors run to completion; Run returns that first result.
	e.reg("(*github.com/oklog/run.Group).Run", func(c *CallCtx, st *State, args []Value) []Outcome {
		en := c.E
		g := st.Load(args[0].(Ptr)).(*StructV)
		actors := en.sliceElems(st, g.F[0])
		if len(actors) == 0 {
			return one(st, nilErr)
		}
		var outs []Outcome
		for first := range actors {
			s0 := st
			if first < len(actors)-1 {
				s0 = st.Clone()
			}
			s0.choices = append(s0.choices, ChoiceRec{Name: "run.Group.first_actor", V: first})
			type item struct {
				st  *State
				ret Value
			}
			var cur []item
			for _, o := range en.callValue(s0, actors[first].(*StructV).F[0], nil, nil, c.Frame) {
				if o.Panic != nil {
					outs = append(outs, o)
					continue
				}
				// interrupt everybody with the first result
				s2, ok := o.St, true
				for _, b := range actors {
					ro := en.callValue(s2, b.(*StructV).F[1], []Value{o.Ret}, nil, c.Frame)
					if len(ro) != 1 || ro[0].Panic != nil {
						outs = append(outs, ro...)
						ok = false
						break
					}
					s2 = ro[0].St
				}
				if ok {
					cur = append(cur, item{st: s2, ret: o.Ret})
				}
			}
			for i, a := range actors {
				if i == first {
					continue
				}
				var next []item
				for _, it := range cur {
					for _, o := range en.callValue(it.st, a.(*StructV).F[0], nil, nil, c.Frame) {
						if o.Panic != nil {
							outs = append(outs, o)
							continue
						}
						next = append(next, item{st: o.St, ret: it.ret})
					}
				}
				cur = next
			}
			for _, it := range cur {
				outs = append(outs, Outcome{St: it.st, Ret: it.ret})
			}
		}
		return outs
	})
	e.reg(z+"NewContext", func(c *CallCtx, st *State, args []Value) []Outcome {
		en := c.E
		t := types.NewPointer(en.typeOf(ZzvPath, "Ctx"))
		p := en.alloc(st, &StructV{F: []Value{Iface{}}})
		return one(st, Tuple{Iface{T: t, V: p}, Func{Fn: en.FindFunc(ZzvPath, "NoopCancel")}})
	})
	e.reg(z+"CancelAfter", noop)
	e.reg("path/filepath.EvalSymlinks", func(c *CallCtx, st *State, args []Value) []Outcome {
		en := c.E
		p := en.pathArg(args[0], "EvalSymlinks")
		r := en.resolveLink(st, p)
		if rec, ok := en.statLookup(st, r); ok {
			exists := rec.F[0].(*smt.Term)
			sts := en.forkStates(st, []*smt.Term{exists, smt.Not(exists)})
			var outs []Outcome
			if sts[0] != nil {
				outs = append(outs, Outcome{St: sts[0], Ret: Tuple{Str{S: r}, nilErr}})
			}
			if sts[1] != nil {
				outs = append(outs, Outcome{St: sts[1], Ret: Tuple{Str{}, en.newError(sts[1], "lstat "+r+": no such file or directory")}})
			}
			return outs
		}
		return one(st, Tuple{Str{S: r}, nilErr})
	})

	e.reg("context.Background", func(c *CallCtx, st *State, args []Value) []Outcome {
		t := types.NewPointer(c.E.typeOf(ZzvPath, "Ctx"))
		return one(st, Iface{T: t, V: c.E.alloc(st, &StructV{F: []Value{Iface{}}})})
	})
	e.reg("context.WithTimeout", func(c *CallCtx, st *State, args []Value) []Outcome {
		en := c.E
		t := types.NewPointer(en.typeOf(ZzvPath, "Ctx"))
		p := en.alloc(st, &StructV{F: []Value{Iface{}}})
		cell := en.namedCell(st, "exec.ctx", func() Value { return Ptr{} })
		st.heap[cell] = p
		cancel := en.FindFunc(ZzvPath, "NoopCancel")
		return one(st, Tuple{Iface{T: t, V: p}, Func{Fn: cancel}})
	})
	e.reg("os/exec.CommandContext", func(c *CallCtx, st *State, args []Value) []Outcome {
		en := c.E
		exe := en.pathArg(args[1], "exec.CommandContext")
		cmd := en.alloc(st, Zero(en.typeOf("os/exec", "Cmd")))
		cell := en.namedCell(st, "exec.path", func() Value { return Str{} })
		st.heap[cell] = Str{S: exe}
		return one(st, cmd)
	})
	e.reg("(*os/exec.Cmd).Output", func(c *CallCtx, st *State, args []Value) []Outcome {
		en := c.E
		exe := st.heap[en.namedCell(st, "exec.path", func() Value { return Str{} })].(Str).S
		ec := en.namedCell(st, "executed:"+exe, func() Value { return smt.False })
		st.heap[ec] = smt.True
		sc := st.heap[en.namedCell(st, "scenario:"+exe, func() Value { return Tuple{smt.IntC(0), Str{S: "42"}, Str{}} })].(Tuple)
		kind := sc[0].(*smt.Term)
		text, _ := strArg(sc[1])
		stderrText, _ := strArg(sc[2])
		// scenarios 0..3 and 5, 6 by number; everything else is 4 (deadline exceeded)
		conds := make([]*smt.Term, 7)
		rest := smt.True
		for _, i := range []int{0, 1, 2, 3, 5, 6} {
			conds[i] = smt.Eq(kind, smt.IntC(int64(i)))
			rest = smt.And(rest, smt.Not(conds[i]))
		}
		conds[4] = rest
		sts := en.forkStates(st, conds)
		// a process is actually started (and may run up to its deadline) in every scenario but
		// "cannot be started"
		for _, i := range []int{0, 1, 4, 5, 6} {
			if s := sts[i]; s != nil {
				sc := en.namedCell(s, "starts:"+exe, func() Value { return smt.IntC(0) })
				s.heap[sc] = smt.Add(s.heap[sc].(*smt.Term), smt.IntC(1))
			}
		}
		bytesOf := func(s *State, txt string) Value {
			el := make([]Value, len(txt))
			for i := 0; i < len(txt); i++ {
				el[i] = smt.BVC(uint64(txt[i]), 8)
			}
			cell := en.newCell()
			s.heap[cell] = &ArrayV{E: el}
			return Slice{Cell: cell, Lo: 0, Hi: len(txt), Cap: len(txt)}
		}
		errOf := func(s *State, pkg, name string) Value {
			t := types.NewPointer(en.typeOf(pkg, name))
			return Iface{T: t, V: en.alloc(s, Zero(en.typeOf(pkg, name)))}
		}
		var outs []Outcome
		if s := sts[0]; s != nil { // success
			outs = append(outs, Outcome{St: s, Ret: Tuple{bytesOf(s, text), nilErr}})
		}
		if s := sts[1]; s != nil { // non-zero exit: *exec.ExitError carrying the captured stderr, output still returned
			ee := errOf(s, "os/exec", "ExitError").(Iface)
			if stderrText != "" {
				s.Store(ee.V.(Ptr).child(fieldIndex(en.typeOf("os/exec", "ExitError"), "Stderr")), bytesOf(s, stderrText))
			}
			outs = append(outs, Outcome{St: s, Ret: Tuple{bytesOf(s, text), ee}})
		}
		pathErr := func(s *State, why string) Value {
			pe := errOf(s, "io/fs", "PathError").(Iface)
			s.Store(pe.V.(Ptr).child(fieldIndex(en.typeOf("io/fs", "PathError"), "Err")), en.newError(s, why))
			return pe
		}
		if s := sts[2]; s != nil { // cannot start (permission denied): *fs.PathError
			outs = append(outs, Outcome{St: s, Ret: Tuple{Slice{}, pathErr(s, "permission denied")}})
		}
		if s := sts[3]; s != nil { // exec format error: *fs.PathError
			outs = append(outs, Outcome{St: s, Ret: Tuple{Slice{}, pathErr(s, "exec format error")}})
		}
		if s := sts[4]; s != nil { // deadline exceeded: process killed, ctx.Err() set
			ctxp := s.heap[en.namedCell(s, "exec.ctx", func() Value { return Ptr{} })].(Ptr)
			if !ctxp.IsNil() {
				de := s.Load(en.globalPtr(s, en.Pkgs["context"].Var("DeadlineExceeded")))
				s.Store(ctxp.child(0), de)
			}
			outs = append(outs, Outcome{St: s, Ret: Tuple{Slice{}, errOf(s, "os/exec", "ExitError")}})
		}
		// Scenarios 5 and 6: a descendant of the command keeps the output pipe open for longer than
		// any bound. Documented contract of os/exec (Cmd.WaitDelay): "If WaitDelay is zero (the
		// default), I/O pipes will be read until EOF, which might not occur until orphaned
		// subprocesses of the command have also closed their descriptors"; a non-zero WaitDelay
		// bounds that wait (counted from the child's exit or the context's end), after which the
		// pipes are closed and Wait returns ErrWaitDelay (clean exit) or the exit error.
		setDeadline := func(s *State) {
			ctxp := s.heap[en.namedCell(s, "exec.ctx", func() Value { return Ptr{} })].(Ptr)
			if !ctxp.IsNil() {
				de := s.Load(en.globalPtr(s, en.Pkgs["context"].Var("DeadlineExceeded")))
				s.Store(ctxp.child(0), de)
			}
		}
		for _, sn := range []int{5, 6} {
			s := sts[sn]
			if s == nil {
				continue
			}
			wd := s.Load(args[0].(Ptr).child(fieldIndex(en.typeOf("os/exec", "Cmd"), "WaitDelay"))).(*smt.Term)
			zero := smt.Eq(wd, smt.IntC(0))
			br := en.forkStates(s, []*smt.Term{zero, smt.Not(zero)})
			if u := br[0]; u != nil { // unbounded wait: the call returns only when the descendant is gone, long after the deadline
				uc := en.namedCell(u, "exec.unbounded", func() Value { return smt.False })
				u.heap[uc] = smt.True
				setDeadline(u)
				if sn == 5 {
					outs = append(outs, Outcome{St: u, Ret: Tuple{bytesOf(u, text), nilErr}})
				} else {
					outs = append(outs, Outcome{St: u, Ret: Tuple{bytesOf(u, text), errOf(u, "os/exec", "ExitError")}})
				}
			}
			if b := br[1]; b != nil { // bounded by WaitDelay
				if sn == 5 {
					outs = append(outs, Outcome{St: b, Ret: Tuple{bytesOf(b, text), en.newError(b, "exec: WaitDelay expired before I/O complete")}})
				} else {
					setDeadline(b)
					outs = append(outs, Outcome{St: b, Ret: Tuple{bytesOf(b, text), errOf(b, "os/exec", "ExitError")}})
				}
			}
		}
		return outs
	})
	// Stopwatch: StopwatchStart clears, StopwatchOver reads the ghost flag "a command call since
	// the start had no bound on its duration" (natively: wall-clock time).
	e.reg(z+"StopwatchStart", func(c *CallCtx, st *State, args []Value) []Outcome {
		uc := c.E.namedCell(st, "exec.unbounded", func() Value { return smt.False })
		st.heap[uc] = smt.False
		return one(st, smt.IntC(0))
	})
	e.reg(z+"StopwatchOver", func(c *CallCtx, st *State, args []Value) []Outcome {
		uc := c.E.namedCell(st, "exec.unbounded", func() Value { return smt.False })
		return one(st, st.heap[uc])
	})
}

// statOutcomes models os.Stat for paths registered with zzv.StatPut / ExecScenario.
func (e *Engine) statOutcomes(st *State, p string) ([]Outcome, bool) {
	rec, ok := e.statLookup(st, p)
	if !ok {
		return nil, false
	}
	exists := rec.F[0].(*smt.Term)
	sts := e.forkStates(st, []*smt.Term{exists, smt.Not(exists)})
	var outs []Outcome
	if s := sts[0]; s != nil {
		stT := e.typeOf("syscall", "Stat_t")
		sv := Zero(stT).(*StructV)
		nf := append([]Value(nil), sv.F...)
		nf[fieldIndex(stT, "Uid")] = rec.F[1]
		nf[fieldIndex(stT, "Gid")] = rec.F[2]
		sp := e.alloc(s, &StructV{F: nf})
		fi := &StructV{F: []Value{rec.F[3], sp}}
		outs = append(outs, Outcome{St: s, Ret: Tuple{Iface{T: e.typeOf(ZzvPath, "FileInfo"), V: fi}, nilErr}})
	}
	if s := sts[1]; s != nil {
		ne := s.Load(e.globalPtr(s, e.Pkgs["io/fs"].Var("ErrNotExist")))
		outs = append(outs, Outcome{St: s, Ret: Tuple{Iface{}, ne}})
	}
	return outs, true
}
