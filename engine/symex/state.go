package symex

import (
	"fmt"

	"fgsym/smt"
)

type Record struct {
	Tag string
	V   *smt.Term
}

type ChoiceRec struct {
	Name string
	V    int
}

type State struct {
	heap    map[int]Value
	pc      []*smt.Term
	counts  map[string]int // per-name counters for nondet naming
	choices []ChoiceRec
	recs    []Record
	nondets []*smt.Term // declared nondet variables in order
	steps   int
	depth   int
}

func NewState() *State {
	return &State{heap: map[int]Value{}, counts: map[string]int{}}
}

func (s *State) Clone() *State {
	n := &State{
		heap:    make(map[int]Value, len(s.heap)+8),
		pc:      append([]*smt.Term(nil), s.pc...),
		counts:  make(map[string]int, len(s.counts)),
		choices: append([]ChoiceRec(nil), s.choices...),
		recs:    append([]Record(nil), s.recs...),
		nondets: append([]*smt.Term(nil), s.nondets...),
		steps:   s.steps,
		depth:   s.depth,
	}
	for k, v := range s.heap {
		n.heap[k] = v
	}
	for k, v := range s.counts {
		n.counts[k] = v
	}
	return n
}

func (s *State) Assume(c *smt.Term) {
	if c.IsTrue() {
		return
	}
	s.pc = append(s.pc, c)
}

func (s *State) Infeasible() bool {
	for _, c := range s.pc {
		if c.IsFalse() {
			return true
		}
	}
	return false
}

func (s *State) PC() *smt.Term { return smt.And(s.pc...) }

// uniqueName returns name, name#1, name#2 ... per path (the native zzv does the same).
func (s *State) uniqueName(name string) string {
	c := s.counts[name]
	s.counts[name] = c + 1
	if c == 0 {
		return name
	}
	return fmt.Sprintf("%s#%d", name, c)
}

// ---------- heap ----------

func descend(v Value, path []int) Value {
	for _, i := range path {
		switch x := v.(type) {
		case *StructV:
			v = x.F[i]
		case *ArrayV:
			if i < 0 || i >= len(x.E) {
				panic(fmt.Sprintf("descend: index %d out of range %d", i, len(x.E)))
			}
			v = x.E[i]
		default:
			panic(fmt.Sprintf("descend into %T", v))
		}
	}
	return v
}

func update(v Value, path []int, nv Value) Value {
	if len(path) == 0 {
		return nv
	}
	i := path[0]
	switch x := v.(type) {
	case *StructV:
		f := make([]Value, len(x.F))
		copy(f, x.F)
		f[i] = update(x.F[i], path[1:], nv)
		return &StructV{f}
	case *ArrayV:
		e := make([]Value, len(x.E))
		copy(e, x.E)
		e[i] = update(x.E[i], path[1:], nv)
		return &ArrayV{e}
	}
	panic(fmt.Sprintf("update into %T", v))
}

func (s *State) Load(p Ptr) Value {
	root, ok := s.heap[p.Cell]
	if !ok {
		panic(fmt.Sprintf("load from unallocated cell %d", p.Cell))
	}
	return descend(root, p.Path)
}

func (s *State) Store(p Ptr, v Value) {
	root, ok := s.heap[p.Cell]
	if !ok {
		panic(fmt.Sprintf("store to unallocated cell %d", p.Cell))
	}
	s.heap[p.Cell] = update(root, p.Path, v)
}
