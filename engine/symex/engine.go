package symex

import (
	"fmt"
	"go/types"
	"os"
	"path/filepath"
	"sort"
	"strings"

	"golang.org/x/tools/go/packages"
	"golang.org/x/tools/go/ssa"
	"golang.org/x/tools/go/ssa/ssautil"

	"fgsym/smt"
)

const RepoMod = "github.com/markusressel/fan2go"
const ZzvPath = RepoMod + "/internal/zzv"

type Config struct {
	RepoDir     string
	VerifDir    string
	WorkDir     string
	Patterns    []string          // package patterns to load
	Overlay     map[string]string // virtual path under RepoDir -> real file
	MaxSteps    int
	MaxDepth    int
	Prune       bool
	Merge       bool
	LoopBound   int
	Verbose     bool
	SelectTicks int
	Thorough    bool
}

type Engine struct {
	Cfg     Config
	Prog    *ssa.Program
	Pkgs    map[string]*ssa.Package
	globals map[*ssa.Global]int
	named   map[string]int // engine-level named cells (file table, ghosts, ...)
	next    int
	icpt    map[string]Intercept
	VCs     []*VC
	Harness string

	// statistics
	Paths        int
	Instrs       int
	Funcs        map[string]bool
	Stubs        map[string]bool
	PruneQueries int
	Merges       int
	Aborts       []string
	pruneCache   map[int]smt.Result
	strCodes     map[string]int
	initDone     map[*ssa.Package]bool
	sess         *smt.Session
	durParts     map[*smt.Term][2]*smt.Term // durations produced by the virtual clock: (seconds, milliseconds)
	Concrete     *ConcreteInputs            // when set: nondets and choices come from this table (concolic replay)
}

// WriteModFile creates go.verif.mod / go.verif.sum in dir, replacing the cgo gosensors module.
func WriteModFile(repo, verif, dir string) (string, error) {
	mod, err := os.ReadFile(filepath.Join(repo, "go.mod"))
	if err != nil {
		return "", err
	}
	sum, err := os.ReadFile(filepath.Join(repo, "go.sum"))
	if err != nil {
		return "", err
	}
	if err := os.MkdirAll(dir, 0o755); err != nil {
		return "", err
	}
	m := string(mod) + "\nreplace github.com/md14454/gosensors => " + filepath.Join(verif, "stubs/gosensors") + "\n"
	mf := filepath.Join(dir, "go.verif.mod")
	if err := os.WriteFile(mf, []byte(m), 0o644); err != nil {
		return "", err
	}
	if err := os.WriteFile(filepath.Join(dir, "go.verif.sum"), sum, 0o644); err != nil {
		return "", err
	}
	return mf, nil
}

func GoEnv() []string {
	env := os.Environ()
	env = append(env, "GOPROXY=off", "GOSUMDB=off", "GOTOOLCHAIN=local", "CGO_ENABLED=0")
	return env
}

func Load(cfg Config) (*Engine, error) {
	mf, err := WriteModFile(cfg.RepoDir, cfg.VerifDir, cfg.WorkDir)
	if err != nil {
		return nil, err
	}
	overlay := map[string][]byte{}
	for virt, real := range cfg.Overlay {
		b, err := os.ReadFile(real)
		if err != nil {
			return nil, err
		}
		overlay[virt] = b
	}
	pc := &packages.Config{
		Mode:       packages.LoadAllSyntax,
		Dir:        cfg.RepoDir,
		Env:        append(GoEnv(), "GOFLAGS=-mod=mod"),
		BuildFlags: []string{"-modfile=" + mf},
		Overlay:    overlay,
	}
	pkgs, err := packages.Load(pc, cfg.Patterns...)
	if err != nil {
		return nil, err
	}
	var errs []string
	packages.Visit(pkgs, nil, func(p *packages.Package) {
		if strings.HasPrefix(p.PkgPath, RepoMod) {
			for _, e := range p.Errors {
				errs = append(errs, e.Error())
			}
		}
	})
	if len(errs) > 0 {
		return nil, fmt.Errorf("package errors:\n%s", strings.Join(errs, "\n"))
	}
	prog, _ := ssautil.AllPackages(pkgs, ssa.InstantiateGenerics)
	prog.Build()
	e := &Engine{
		Cfg:        cfg,
		Prog:       prog,
		Pkgs:       map[string]*ssa.Package{},
		globals:    map[*ssa.Global]int{},
		named:      map[string]int{},
		next:       10,
		icpt:       map[string]Intercept{},
		Funcs:      map[string]bool{},
		Stubs:      map[string]bool{},
		pruneCache: map[int]smt.Result{},
		strCodes:   map[string]int{},
		initDone:   map[*ssa.Package]bool{},
		durParts:   map[*smt.Term][2]*smt.Term{},
	}
	for _, p := range prog.AllPackages() {
		e.Pkgs[p.Pkg.Path()] = p
	}
	if e.Cfg.MaxSteps == 0 {
		e.Cfg.MaxSteps = 2_000_000
	}
	if e.Cfg.MaxDepth == 0 {
		e.Cfg.MaxDepth = 60
	}
	if e.Cfg.LoopBound == 0 {
		e.Cfg.LoopBound = 600
	}
	registerIntercepts(e)
	return e, nil
}

func (e *Engine) newCell() int {
	e.next++
	return e.next
}

func (e *Engine) alloc(st *State, v Value) Ptr {
	c := e.newCell()
	st.heap[c] = v
	return Ptr{Cell: c}
}

func (e *Engine) namedCell(st *State, name string, init func() Value) int {
	c, ok := e.named[name]
	if !ok {
		c = e.newCell()
		e.named[name] = c
	}
	if _, ok := st.heap[c]; !ok {
		st.heap[c] = init()
	}
	return c
}

func (e *Engine) globalPtr(st *State, g *ssa.Global) Ptr {
	c, ok := e.globals[g]
	if !ok {
		c = e.newCell()
		e.globals[g] = c
	}
	if _, ok := st.heap[c]; !ok {
		et := g.Type().(*types.Pointer).Elem()
		st.heap[c] = e.globalInit(st, g, et)
	}
	return Ptr{Cell: c}
}

// globalInit gives the initial content of a package-level variable. Package initialisers are
// not executed; error sentinels of other packages become distinct opaque error objects,
// everything else starts at its zero value (harnesses set what they need).
func (e *Engine) globalInit(st *State, g *ssa.Global, et types.Type) Value {
	if _, ok := under(et).(*types.Interface); ok && et.String() == "error" {
		return e.newError(st, g.String())
	}
	if g.Pkg != nil && g.Pkg.Pkg.Path() == "context" && (g.Name() == "Canceled" || g.Name() == "DeadlineExceeded") {
		return e.newError(st, g.String())
	}
	return Zero(et)
}

// FindFunc locates a package-level function.
func (e *Engine) FindFunc(pkg, name string) *ssa.Function {
	p := e.Pkgs[pkg]
	if p == nil {
		return nil
	}
	return p.Func(name)
}

// HarnessFuncs lists functions named ZZ_<id>_* in the loaded repo packages.
func (e *Engine) HarnessFuncs(prefix string) []*ssa.Function {
	var out []*ssa.Function
	for path, p := range e.Pkgs {
		if !strings.HasPrefix(path, RepoMod) {
			continue
		}
		for name, m := range p.Members {
			if f, ok := m.(*ssa.Function); ok && strings.HasPrefix(name, prefix) {
				out = append(out, f)
			}
		}
	}
	sort.Slice(out, func(i, j int) bool { return out[i].String() < out[j].String() })
	return out
}

func (e *Engine) logf(format string, a ...interface{}) {
	if e.Cfg.Verbose {
		fmt.Fprintf(os.Stderr, format+"\n", a...)
	}
}

// Close releases solver sessions.
func (e *Engine) Close() {
	if e.sess != nil {
		e.sess.Close()
	}
}

// ConcreteInputs drives the interpreter with fixed inputs: every Nondet returns the table value
// (zero when absent) and every Choice its recorded branch, so exactly one path is executed.
type ConcreteInputs struct {
	Values  map[string]*smt.Term
	Choices map[string]int
}
