package symex

import (
	"fmt"
	"os"
	"runtime/debug"
	"sort"
	"strings"
	"sync"
	"time"

	"golang.org/x/tools/go/ssa"

	"fgsym/smt"
)

type HarnessResult struct {
	Name    string
	Pkg     string
	Ends    []PathEnd
	VCs     []*VC
	Aborted string // engine could not encode something: no verdict for this harness
	Paths   int
	Wall    float64
}

// RunHarness executes one harness function symbolically.
func (e *Engine) RunHarness(fn *ssa.Function) (res HarnessResult) {
	t0 := time.Now()
	res.Name = fn.Name()
	res.Pkg = fn.Pkg.Pkg.Path()
	e.Harness = fn.Name()
	e.VCs = nil
	defer func() {
		if r := recover(); r != nil {
			if a, ok := r.(abortErr); ok {
				res.Aborted = a.msg
			} else {
				res.Aborted = fmt.Sprintf("engine panic: %v\n%s", r, debug.Stack())
			}
		}
		res.VCs = e.VCs
		res.Wall = time.Since(t0).Seconds()
	}()
	st := NewState()
	// package initialisers of the module packages (registries, sentinel errors, tables)
	if init := fn.Pkg.Func("init"); init != nil {
		outs := e.ExecFunc(st, init, nil)
		if len(outs) != 1 || outs[0].Panic != nil {
			msg := "package init did not complete on a single path"
			if len(outs) > 0 && outs[0].Panic != nil {
				msg += ": " + outs[0].Panic.Msg
			}
			e.abort("%s", msg)
		}
		st = outs[0].St
		st.pc = nil
		st.steps = 0
	}
	outs := e.ExecFunc(st, fn, nil)
	for _, o := range outs {
		res.Paths++
		e.Paths++
		if o.Panic != nil {
			kind := "panic"
			label := "nopanic"
			if o.Panic.Kind == "unwind" {
				kind, label = "unwind", "unwinding"
			}
			e.addVC(o.St, kind, label, smt.False, fmt.Sprintf("%s: %s at %s", o.Panic.Kind, o.Panic.Msg, o.Panic.Pos))
			continue
		}
		res.Ends = append(res.Ends, PathEnd{Harness: fn.Name(), PC: o.St.pc, Choices: o.St.choices, Nondets: o.St.nondets, Recs: o.St.recs})
	}
	return res
}

// ---------- discharge ----------

type Verdict struct {
	VC      *VC
	Res     smt.Result
	Model   map[string]*smt.Term
	RecVals []*smt.Term
	Solver  string
	Seconds float64
	File    string
	Cross   string // result of the cross-check solver, if any
	Abstracted int // kernel instances replaced under proved lemmas
}

type DischargeOpts struct {
	IntTimeout time.Duration
	FPTimeout  time.Duration
	Workers    int
	CrossCheck bool
	FPBackend  smt.Backend
	IntBackend smt.Backend
}

func pickBackend(o DischargeOpts, ts []*smt.Term) (smt.Backend, time.Duration) {
	for _, t := range ts {
		if smt.HasFP(t) {
			return o.FPBackend, o.FPTimeout
		}
	}
	return o.IntBackend, o.IntTimeout
}

// Discharge asks, for each VC, whether PC ∧ ¬Cond ∧ extra is satisfiable.
func Discharge(vcs []*VC, extra func(*VC) []*smt.Term, o DischargeOpts) []Verdict {
	out := make([]Verdict, len(vcs))
	var wg sync.WaitGroup
	sem := make(chan struct{}, o.Workers)
	for i, vc := range vcs {
		wg.Add(1)
		go func(i int, vc *VC) {
			defer wg.Done()
			sem <- struct{}{}
			defer func() { <-sem }()
			as := append(append([]*smt.Term(nil), vc.PC...), smt.Not(vc.Cond))
			if extra != nil {
				as = append(as, extra(vc)...)
			}
			v := Verdict{VC: vc}
			q := smt.And(as...)
			if q.IsFalse() {
				v.Res = smt.Unsat
				v.Solver = "folded"
				out[i] = v
				return
			}
			var gets []*smt.Term
			gets = append(gets, vc.Nondets...)
			for _, r := range vc.Recs {
				gets = append(gets, r.V)
			}
			// kernel-lemma abstraction first; a model found under it is confirmed on the exact query
			abs, nAbs := smt.AbstractKernels(as)
			var a smt.Answer
			final := as
			if nAbs > 0 {
				final = abs
				v.Abstracted = nAbs
				be, to := pickBackend(o, abs)
				a = solvePortfolio(be, abs, nil, to, o)
				if a.Res != smt.Unsat {
					be, to = pickBackend(o, as)
					b := solvePortfolio(be, as, gets, to, o)
					b.Seconds += a.Seconds
					a = b
					v.Abstracted = 0
					final = as
				}
			} else {
				be, to := pickBackend(o, as)
				a = solvePortfolio(be, as, gets, to, o)
			}
			v.Res, v.Solver, v.Seconds, v.File = a.Res, a.Solver, a.Seconds, a.File
			if a.Res == smt.Error {
				fmt.Fprintf(os.Stderr, "solver error on %s/%s: %s\n", vc.Harness, vc.Label, firstLines(a.Raw, 3))
			}
			if a.Res == smt.Sat {
				v.Model = map[string]*smt.Term{}
				for j, n := range vc.Nondets {
					v.Model[n.Name] = a.Values[j]
				}
				v.RecVals = a.Values[len(vc.Nondets):]
			}
			if o.CrossCheck && a.Res == smt.Unsat {
				other := smt.Z3New
				if strings.HasPrefix(a.Solver, "z3") {
					other = smt.CVC5
				}
				_, to := pickBackend(o, final)
				b := smt.Solve(other, final, nil, to)
				v.Cross = b.Res.String()
			}
			out[i] = v
		}(i, vc)
	}
	wg.Wait()
	return out
}

// solvePortfolio: integer queries get a short z3 slice first (most finish in milliseconds), then
// cvc5 with the full cap (bit-blasting in z3 4.8.12 stalls on ordered chains of 64-bit values that
// cvc5 decides in a second); FP queries go to the FP back end directly.
func solvePortfolio(be smt.Backend, as, gets []*smt.Term, to time.Duration, o DischargeOpts) smt.Answer {
	if be == o.FPBackend && be != o.IntBackend {
		return smt.Solve(be, as, gets, to)
	}
	slice := 4 * time.Second
	if to < slice {
		slice = to
	}
	a := smt.Solve(be, as, gets, slice)
	if a.Res == smt.Sat || a.Res == smt.Unsat {
		return a
	}
	spent := a.Seconds
	other := smt.CVC5
	if be == smt.CVC5 {
		other = smt.Z3New
	}
	b := smt.Solve(other, as, gets, to)
	b.Seconds += spent
	return b
}

func firstLines(s string, n int) string {
	ls := strings.Split(strings.TrimSpace(s), "\n")
	if len(ls) > n {
		ls = ls[:n]
	}
	return strings.Join(ls, " | ")
}

// SolvePath finds a model of a completed path (reachability witness / translator validation).
func SolvePath(p PathEnd, o DischargeOpts) (smt.Result, map[string]*smt.Term, []*smt.Term) {
	var gets []*smt.Term
	gets = append(gets, p.Nondets...)
	for _, r := range p.Recs {
		gets = append(gets, r.V)
	}
	as := p.PC
	if len(as) == 0 {
		as = []*smt.Term{smt.True}
	}
	be, to := pickBackend(o, as)
	a := solvePortfolio(be, as, gets, to, o)
	if a.Res != smt.Sat {
		return a.Res, nil, nil
	}
	m := map[string]*smt.Term{}
	for j, n := range p.Nondets {
		m[n.Name] = a.Values[j]
	}
	return a.Res, m, a.Values[len(p.Nondets):]
}

func SortedKeys(m map[string]bool) []string {
	var out []string
	for k := range m {
		out = append(out, k)
	}
	sort.Strings(out)
	return out
}
