package symex

import (
	"fmt"
	"os"
	"runtime/debug"
	"sort"
	"strings"
	"sync"
	"sync/atomic"
	"time"

	"golang.org/x/tools/go/ssa"

	"fgsym/smt"
)

type HarnessResult struct {
	Name    string
	Pkg     string
	Ends    []PathEnd
	VCs     []*VC
	Aborted string // engine could not encode something: no verdict for this harness
	Paths   int
	Wall    float64
}

// RunHarness executes one harness function symbolically.
func (e *Engine) RunHarness(fn *ssa.Function) (res HarnessResult) {
	t0 := time.Now()
	res.Name = fn.Name()
	res.Pkg = fn.Pkg.Pkg.Path()
	e.Harness = fn.Name()
	e.VCs = nil
	defer func() {
		if r := recover(); r != nil {
			if a, ok := r.(abortErr); ok {
				res.Aborted = a.msg
			} else {
				res.Aborted = fmt.Sprintf("engine panic: %v\n%s", r, debug.Stack())
			}
		}
		res.VCs = e.VCs
		res.Wall = time.Since(t0).Seconds()
	}()
	st := NewState()
	// package initialisers of the module packages (registries, sentinel errors, tables)
	if init := fn.Pkg.Func("init"); init != nil {
		outs := e.ExecFunc(st, init, nil)
		if len(outs) != 1 || outs[0].Panic != nil {
			msg := "package init did not complete on a single path"
			if len(outs) > 0 && outs[0].Panic != nil {
				msg += ": " + outs[0].Panic.Msg
			}
			e.abort("%s", msg)
		}
		st = outs[0].St
		st.pc = nil
		st.steps = 0
	}
	outs := e.ExecFunc(st, fn, nil)
	for _, o := range outs {
		res.Paths++
		e.Paths++
		if o.Panic != nil {
			kind := "panic"
			label := "nopanic"
			if o.Panic.Kind == "unwind" {
				kind, label = "unwind", "unwinding"
			}
			e.addVC(o.St, kind, label, smt.False, fmt.Sprintf("%s: %s at %s", o.Panic.Kind, o.Panic.Msg, o.Panic.Pos))
			continue
		}
		res.Ends = append(res.Ends, PathEnd{Harness: fn.Name(), PC: o.St.pc, Choices: o.St.choices, Nondets: o.St.nondets, Recs: o.St.recs})
	}
	return res
}

// ---------- discharge ----------

type Verdict struct {
	VC         *VC
	Res        smt.Result
	Model      map[string]*smt.Term
	RecVals    []*smt.Term
	Solver     string
	Seconds    float64
	File       string
	Cross      string // result of the cross-check solver, if any
	Abstracted int    // kernel instances replaced under proved lemmas
}

// budget of the thorough tier's second-solver cross-check, in solver milliseconds per run
// (16 workers: about 8 minutes of wall-clock time)
const crossBudgetMs = 7200 * 1000

var crossSpentMs int64

type DischargeOpts struct {
	IntTimeout time.Duration
	FPTimeout  time.Duration
	Workers    int
	CrossCheck bool
	FPBackend  smt.Backend
	IntBackend smt.Backend
}

func pickBackend(o DischargeOpts, ts []*smt.Term) (smt.Backend, time.Duration) {
	for _, t := range ts {
		if smt.HasFP(t) {
			return o.FPBackend, o.FPTimeout
		}
	}
	return o.IntBackend, o.IntTimeout
}

// Discharge asks, for each VC, whether PC ∧ ¬Cond ∧ extra is satisfiable.
func Discharge(vcs []*VC, extra func(*VC) []*smt.Term, o DischargeOpts) []Verdict {
	out := make([]Verdict, len(vcs))
	var wg sync.WaitGroup
	sem := make(chan struct{}, o.Workers)
	for i, vc := range vcs {
		wg.Add(1)
		go func(i int, vc *VC) {
			defer wg.Done()
			sem <- struct{}{}
			defer func() { <-sem }()
			as := append(append([]*smt.Term(nil), vc.PC...), smt.Not(vc.Cond))
			if extra != nil {
				as = append(as, extra(vc)...)
			}
			v := Verdict{VC: vc}
			q := smt.And(as...)
			if q.IsFalse() {
				v.Res = smt.Unsat
				v.Solver = "folded"
				out[i] = v
				return
			}
			var gets []*smt.Term
			gets = append(gets, vc.Nondets...)
			for _, r := range vc.Recs {
				gets = append(gets, r.V)
			}
			// kernel-lemma abstraction first; a model found under it is confirmed on the exact query
			abs, nAbs := smt.AbstractKernels(as, true)
			abs = smt.SimplifyIntFloat(abs)
			exact := smt.SimplifyIntFloat(as)
			var a smt.Answer
			final := exact
			if nAbs > 0 {
				final = abs
				v.Abstracted = nAbs
				be, to := pickBackend(o, abs)
				a = solvePortfolio(be, abs, nil, to, o)
				if a.Res != smt.Unsat {
					if os.Getenv("FGSYM_DEBUG") != "" {
						fmt.Fprintf(os.Stderr, "  abstraction of %s/%s (%d kernels) answered %s in %.1fs (%s); asking the exact query\n", vc.Harness, vc.Label, nAbs, a.Res, a.Seconds, a.File)
					}
					be, to = pickBackend(o, exact)
					b := solvePortfolio(be, exact, gets, to, o)
					b.Seconds += a.Seconds
					a = b
					v.Abstracted = 0
					final = exact
				}
			} else {
				be, to := pickBackend(o, exact)
				a = solvePortfolio(be, exact, gets, to, o)
			}
			v.Res, v.Solver, v.Seconds, v.File = a.Res, a.Solver, a.Seconds, a.File
			if a.Res == smt.Error {
				fmt.Fprintf(os.Stderr, "solver error on %s/%s: %s\n", vc.Harness, vc.Label, firstLines(a.Raw, 3))
			}
			if a.Res == smt.Sat {
				v.Model = map[string]*smt.Term{}
				for j, n := range vc.Nondets {
					v.Model[n.Name] = a.Values[j]
				}
				v.RecVals = a.Values[len(vc.Nondets):]
			}
			if o.CrossCheck && a.Res == smt.Unsat {
				// second opinion: integer queries z3 <-> cvc5; floating-point queries go to z3 5.1.0 only
				// when the first solver needed less than 10 s (z3 is 2-20x slower on FP), capped at 120 s;
				// an unknown from the second solver is tolerated, a sat is an engine failure
				fp := false
				for _, t := range final {
					if smt.HasFP(t) {
						fp = true
						break
					}
				}
				// the whole cross-check of a run has a budget of solver time; what is not re-asked is
				// reported as not cross-checked (evidence: cross_checked counts the ones that were)
				if (!fp || a.Seconds < 10) && atomic.LoadInt64(&crossSpentMs) < crossBudgetMs {
					other := smt.Z3New
					if strings.HasPrefix(a.Solver, "z3") {
						other = smt.CVC5
					}
					b := smt.Solve(other, final, nil, 40*time.Second)
					atomic.AddInt64(&crossSpentMs, int64(b.Seconds*1000)+50)
					v.Cross = b.Res.String()
				}
			}
			out[i] = v
		}(i, vc)
	}
	wg.Wait()
	return out
}

// solvePortfolio: integer queries get a short z3 slice first (most finish in milliseconds), then
// cvc5 with the full cap (bit-blasting in z3 4.8.12 stalls on ordered chains of 64-bit values that
// cvc5 decides in a second); FP queries go to the FP back end directly.
func solvePortfolio(be smt.Backend, as, gets []*smt.Term, to time.Duration, o DischargeOpts) smt.Answer {
	if be == o.FPBackend && be != o.IntBackend {
		return smt.Solve(be, as, gets, to)
	}
	slice := 4 * time.Second
	if to < slice {
		slice = to
	}
	a := smt.Solve(be, as, gets, slice)
	if a.Res == smt.Sat || a.Res == smt.Unsat {
		return a
	}
	spent := a.Seconds
	other := smt.CVC5
	if be == smt.CVC5 {
		other = smt.Z3New
	}
	b := smt.Solve(other, as, gets, to)
	b.Seconds += spent
	return b
}

func firstLines(s string, n int) string {
	ls := strings.Split(strings.TrimSpace(s), "\n")
	if len(ls) > n {
		ls = ls[:n]
	}
	return strings.Join(ls, " | ")
}

// SolvePath finds a model of a completed path (reachability witness / translator validation).
// It first tries the kernel-abstracted path condition (much cheaper); a model found there is
// accepted only if the exact path condition evaluates to true under it (concrete evaluation by
// constant folding), otherwise the exact query is asked.
func SolvePath(p PathEnd, o DischargeOpts, allowExact bool) (smt.Result, map[string]*smt.Term, []*smt.Term) {
	as := p.PC
	if len(as) == 0 {
		as = []*smt.Term{smt.True}
	}
	finish := func(model map[string]*smt.Term) (smt.Result, map[string]*smt.Term, []*smt.Term) {
		memo := map[int]*smt.Term{}
		recs := make([]*smt.Term, len(p.Recs))
		for i, r := range p.Recs {
			recs[i] = smt.Subst(r.V, model, memo)
			if !recs[i].IsConst() {
				return smt.Unknown, nil, nil
			}
		}
		return smt.Sat, model, recs
	}
	if abs, n := smt.AbstractKernels(as, false); n > 0 {
		// Abstract model first; then fix the variables feeding the kernels to the abstract
		// model's values (the kernels fold to constants) and solve the exact path condition for
		// the remaining variables. Up to three abstract models are tried.
		kvars := smt.KernelInputVars(as)
		block := []*smt.Term{}
		for attempt := 0; attempt < 3; attempt++ {
			be, to := pickBackend(o, abs)
			a := solvePortfolio(be, smt.SimplifyIntFloat(append(append([]*smt.Term(nil), abs...), block...)), p.Nondets, to, o)
			if os.Getenv("FGSYM_DEBUG") != "" {
				fmt.Fprintf(os.Stderr, "  witness: abstract query %s in %.1fs\n", a.Res, a.Seconds)
			}
			if a.Res == smt.Unsat && attempt == 0 {
				return smt.Unsat, nil, nil // the abstraction over-approximates: the exact path is infeasible too
			}
			if a.Res != smt.Sat {
				break
			}
			m := map[string]*smt.Term{}
			for j, nd := range p.Nondets {
				m[nd.Name] = a.Values[j]
			}
			fix := map[string]*smt.Term{}
			var blk []*smt.Term
			for _, kv := range kvars {
				if v, ok := m[kv.Name]; ok {
					fix[kv.Name] = v
					blk = append(blk, smt.Eq(kv, v))
				}
			}
			memo := map[int]*smt.Term{}
			conc := make([]*smt.Term, 0, len(as)+len(blk))
			for _, c := range as {
				conc = append(conc, smt.Subst(c, fix, memo))
			}
			be2, to2 := pickBackend(o, conc)
			b := solvePortfolio(be2, conc, p.Nondets, to2, o)
			if os.Getenv("FGSYM_DEBUG") != "" {
				fmt.Fprintf(os.Stderr, "  witness: concretised query %s in %.1fs (%d kernel vars fixed)\n", b.Res, b.Seconds, len(fix))
			}
			if b.Res == smt.Sat {
				m2 := map[string]*smt.Term{}
				for j, nd := range p.Nondets {
					m2[nd.Name] = b.Values[j]
				}
				for k, v := range fix {
					m2[k] = v
				}
				return finish(m2)
			}
			block = append(block, smt.Not(smt.And(blk...)))
		}
		if !allowExact {
			return smt.Unknown, nil, nil
		}
	}
	be, to := pickBackend(o, as)
	a := solvePortfolio(be, as, p.Nondets, to, o)
	if a.Res != smt.Sat {
		return a.Res, nil, nil
	}
	m := map[string]*smt.Term{}
	for j, n := range p.Nondets {
		m[n.Name] = a.Values[j]
	}
	return finish(m)
}

func SortedKeys(m map[string]bool) []string {
	var out []string
	for k := range m {
		out = append(out, k)
	}
	sort.Strings(out)
	return out
}

// GuessInputs returns an input assignment aimed at the given path: a model of the
// kernel-abstracted path condition when kernels occur (cheap, possibly not following exactly that
// path), else a model of the exact path condition.
func GuessInputs(p PathEnd, o DischargeOpts) (map[string]*smt.Term, bool) {
	as := p.PC
	if len(as) == 0 {
		as = []*smt.Term{smt.True}
	}
	q := as
	if abs, n := smt.AbstractKernels(as, false); n > 0 {
		q = abs
	}
	q = smt.SimplifyIntFloat(q)
	be, to := pickBackend(o, q)
	a := solvePortfolio(be, q, p.Nondets, to, o)
	if a.Res != smt.Sat {
		return nil, false
	}
	m := map[string]*smt.Term{}
	for j, nd := range p.Nondets {
		m[nd.Name] = a.Values[j]
	}
	return m, true
}

// ConcreteTrace is the result of running a harness in the interpreter on fixed inputs.
type ConcreteTrace struct {
	Completed  bool // reached the end of the harness
	AssumeFail bool // an assumption was false: no path
	Panic      string
	Failed     []string // assertion labels that evaluate to false
	Recs       []Record
	Aborted    string
}

// RunConcrete interprets the harness on fixed inputs (concolic replay of the encoding).
func (e *Engine) RunConcrete(fn *ssa.Function, in *ConcreteInputs) ConcreteTrace {
	saveVCs, saveMerge := e.VCs, e.Cfg.Merge
	e.Concrete = in
	defer func() { e.Concrete = nil; e.VCs = saveVCs; e.Cfg.Merge = saveMerge }()
	res := e.RunHarness(fn)
	tr := ConcreteTrace{Aborted: res.Aborted}
	for _, vc := range res.VCs {
		if vc.Kind == "assert" && vc.Cond.IsFalse() {
			tr.Failed = append(tr.Failed, vc.Label)
		}
		if vc.Kind == "panic" || vc.Kind == "unwind" {
			tr.Panic = vc.Info
			tr.Recs = vc.Recs
		}
	}
	switch {
	case len(res.Ends) == 1:
		tr.Completed = true
		tr.Recs = res.Ends[0].Recs
	case len(res.Ends) == 0 && tr.Panic == "" && len(tr.Failed) == 0:
		tr.AssumeFail = true
	}
	return tr
}
