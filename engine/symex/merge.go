package symex

import (
	"go/types"

	"fgsym/smt"
)

// mergeValue returns ite(c, a, b) when a and b have the same shape with scalar leaves.
func mergeValue(c *smt.Term, a, b Value) (Value, bool) {
	switch x := a.(type) {
	case nil:
		return nil, b == nil
	case *smt.Term:
		y, ok := b.(*smt.Term)
		if !ok || x.Sort != y.Sort {
			return nil, false
		}
		return smt.Ite(c, x, y), true
	case Str:
		y, ok := b.(Str)
		if !ok {
			return nil, false
		}
		if x.Num != nil || y.Num != nil || x.FNum != nil || y.FNum != nil || x.Fmt != nil || y.Fmt != nil {
			if x.S != y.S || x.Num != y.Num || x.FNum != y.FNum || x.Code != y.Code || len(x.Fmt) != len(y.Fmt) {
				return nil, false
			}
			for i := range x.Fmt {
				if x.Fmt[i] != y.Fmt[i] {
					return nil, false
				}
			}
			return x, true
		}
		if x.Code == nil && y.Code == nil {
			return x, x.S == y.S
		}
		if x.Code != nil && y.Code != nil && x.Code.Sort == y.Code.Sort {
			return Str{Code: smt.Ite(c, x.Code, y.Code)}, true
		}
		return nil, false
	case Ptr:
		y, ok := b.(Ptr)
		return x, ok && ptrEq(x, y)
	case Slice:
		y, ok := b.(Slice)
		return x, ok && x == y
	case MapRef:
		y, ok := b.(MapRef)
		return x, ok && x == y
	case Chan:
		y, ok := b.(Chan)
		return x, ok && x == y
	case IterV:
		y, ok := b.(IterV)
		return x, ok && x == y
	case Opaque:
		_, ok := b.(Opaque)
		return x, ok
	case Func:
		y, ok := b.(Func)
		if !ok || x.Fn != y.Fn || x.B != y.B || len(x.Bind) != len(y.Bind) || x.Has != y.Has {
			return nil, false
		}
		nb := make([]Value, len(x.Bind))
		for i := range x.Bind {
			v, ok := mergeValue(c, x.Bind[i], y.Bind[i])
			if !ok {
				return nil, false
			}
			nb[i] = v
		}
		if x.Has {
			r, ok := mergeValue(c, x.Recv, y.Recv)
			if !ok {
				return nil, false
			}
			return Func{Fn: x.Fn, B: x.B, Bind: nb, Has: true, Recv: r}, true
		}
		return Func{Fn: x.Fn, B: x.B, Bind: nb}, true
	case Iface:
		y, ok := b.(Iface)
		if !ok {
			return nil, false
		}
		if x.T == nil || y.T == nil {
			return x, x.T == nil && y.T == nil
		}
		if !types.Identical(x.T, y.T) {
			return nil, false
		}
		v, ok := mergeValue(c, x.V, y.V)
		if !ok {
			return nil, false
		}
		return Iface{T: x.T, V: v}, true
	case *StructV:
		y, ok := b.(*StructV)
		if !ok || len(x.F) != len(y.F) {
			return nil, false
		}
		if x == y {
			return x, true
		}
		nf := make([]Value, len(x.F))
		for i := range x.F {
			v, ok := mergeValue(c, x.F[i], y.F[i])
			if !ok {
				return nil, false
			}
			nf[i] = v
		}
		return &StructV{nf}, true
	case *ArrayV:
		y, ok := b.(*ArrayV)
		if !ok || len(x.E) != len(y.E) {
			return nil, false
		}
		if x == y {
			return x, true
		}
		ne := make([]Value, len(x.E))
		for i := range x.E {
			v, ok := mergeValue(c, x.E[i], y.E[i])
			if !ok {
				return nil, false
			}
			ne[i] = v
		}
		return &ArrayV{ne}, true
	case Tuple:
		y, ok := b.(Tuple)
		if !ok || len(x) != len(y) {
			return nil, false
		}
		nt := make(Tuple, len(x))
		for i := range x {
			v, ok := mergeValue(c, x[i], y[i])
			if !ok {
				return nil, false
			}
			nt[i] = v
		}
		return nt, true
	case *MapData:
		y, ok := b.(*MapData)
		if !ok || len(x.Ent) != len(y.Ent) {
			return nil, false
		}
		if x == y {
			return x, true
		}
		ne := make([]MapEnt, len(x.Ent))
		for i := range x.Ent {
			k, ok1 := mergeValue(c, x.Ent[i].K, y.Ent[i].K)
			v, ok2 := mergeValue(c, x.Ent[i].V, y.Ent[i].V)
			if !ok1 || !ok2 {
				return nil, false
			}
			ne[i] = MapEnt{K: k, V: v, Live: smt.Ite(c, x.Ent[i].Live, y.Ent[i].Live)}
		}
		return &MapData{Ent: ne}, true
	case *IterData:
		y, ok := b.(*IterData)
		return x, ok && x == y
	}
	return nil, false
}

// tryMerge merges outcome b into a (both non-panicking, sharing the first `prefix` path conditions).
func tryMerge(prefix int, a, b Outcome) (Outcome, bool) {
	if (a.Panic != nil) != (b.Panic != nil) {
		return a, false
	}
	if a.Panic != nil {
		if *a.Panic != *b.Panic {
			return a, false
		}
	}
	sa, sb := a.St, b.St
	if len(sa.pc) < prefix || len(sb.pc) < prefix {
		return a, false
	}
	for i := 0; i < prefix; i++ {
		if sa.pc[i] != sb.pc[i] {
			return a, false
		}
	}
	if len(sa.counts) != len(sb.counts) || len(sa.choices) != len(sb.choices) || len(sa.recs) != len(sb.recs) || len(sa.nondets) != len(sb.nondets) {
		return a, false
	}
	for k, v := range sa.counts {
		if sb.counts[k] != v {
			return a, false
		}
	}
	for i := range sa.choices {
		if sa.choices[i] != sb.choices[i] {
			return a, false
		}
	}
	for i := range sa.nondets {
		if sa.nondets[i] != sb.nondets[i] {
			return a, false
		}
	}
	for i := range sa.recs {
		if sa.recs[i].Tag != sb.recs[i].Tag || sa.recs[i].V.Sort != sb.recs[i].V.Sort {
			return a, false
		}
	}
	ca := smt.And(sa.pc[prefix:]...)
	cb := smt.And(sb.pc[prefix:]...)
	ret, ok := mergeValue(ca, a.Ret, b.Ret)
	if !ok {
		return a, false
	}
	nh := make(map[int]Value, len(sa.heap))
	for k, va := range sa.heap {
		vb, ok := sb.heap[k]
		if !ok {
			nh[k] = va
			continue
		}
		if identical(va, vb) {
			nh[k] = va
			continue
		}
		mv, ok := mergeValue(ca, va, vb)
		if !ok {
			return a, false
		}
		nh[k] = mv
	}
	for k, vb := range sb.heap {
		if _, ok := sa.heap[k]; !ok {
			nh[k] = vb
		}
	}
	ns := &State{
		heap:    nh,
		pc:      append(append([]*smt.Term(nil), sa.pc[:prefix]...), smt.Or(ca, cb)),
		counts:  sa.counts,
		choices: sa.choices,
		nondets: sa.nondets,
		steps:   max(sa.steps, sb.steps),
		depth:   sa.depth,
	}
	for i := range sa.recs {
		ns.recs = append(ns.recs, Record{Tag: sa.recs[i].Tag, V: smt.Ite(ca, sa.recs[i].V, sb.recs[i].V)})
	}
	return Outcome{St: ns, Ret: ret, Panic: a.Panic}, true
}

func (e *Engine) mergeOutcomes(prefix int, outs []Outcome) []Outcome {
	var res []Outcome
	for _, o := range outs {
		merged := false
		for i := range res {
			if m, ok := tryMerge(prefix, res[i], o); ok {
				res[i] = m
				merged = true
				e.Merges++
				break
			}
		}
		if !merged {
			res = append(res, o)
		}
	}
	return res
}

// identical is a cheap pointer-level equality (no deep comparison, never panics).
func identical(a, b Value) bool {
	switch x := a.(type) {
	case *smt.Term:
		y, ok := b.(*smt.Term)
		return ok && x == y
	case *StructV:
		y, ok := b.(*StructV)
		return ok && x == y
	case *ArrayV:
		y, ok := b.(*ArrayV)
		return ok && x == y
	case *MapData:
		y, ok := b.(*MapData)
		return ok && x == y
	case *IterData:
		y, ok := b.(*IterData)
		return ok && x == y
	case Ptr:
		y, ok := b.(Ptr)
		return ok && ptrEq(x, y)
	}
	return false
}
