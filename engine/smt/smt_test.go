package smt

import (
	"testing"
	"time"
)

func TestSolvers(t *testing.T) {
	x := Var("x", BV64)
	f := Var("f y", FP64)
	q := []*Term{Not(Slt(x, Add(x, IntC(1)))), FPCmp(OpFPLt, f, FPC(2.5)), FPCmp(OpFPLt, FPC(1.5), FPBin(OpFPMul, f, FPC(1.0)))}
	for _, b := range []Backend{Z3Old, Z3New, CVC5} {
		a := Solve(b, q, []*Term{x, f, Add(x, IntC(1))}, 10*time.Second)
		if a.Res != Sat {
			t.Fatalf("%s: %v %s", b, a.Res, a.Raw)
		}
		t.Logf("%s: x=%v f=%v x+1=%v %.2fs", b, a.Values[0].SInt(), a.Values[1].F, a.Values[2].SInt(), a.Seconds)
		a = Solve(b, []*Term{Slt(x, IntC(0)), Slt(IntC(0), x)}, []*Term{x}, 10*time.Second)
		if a.Res != Unsat {
			t.Fatalf("%s: %v %s", b, a.Res, a.Raw)
		}
	}
}
