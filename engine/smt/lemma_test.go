package smt

import (
	"testing"
	"time"
)

func TestLemmas(t *testing.T) {
	WorkDir = t.TempDir()
	t0 := time.Now()
	t.Log("range", rangeLemma(), time.Since(t0))
	t0 = time.Now()
	t.Log("ends", endsLemma(), time.Since(t0))
	t0 = time.Now()
	t.Log("mono", monoLemma(), time.Since(t0))
	t.Log(Lemmas())
}
