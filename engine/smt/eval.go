package smt

import "fmt"

// Subst rebuilds t with variables replaced by the given terms (usually constants);
// the constructors fold, so a full assignment evaluates the term.
func Subst(t *Term, m map[string]*Term, memo map[int]*Term) *Term {
	if memo == nil {
		memo = map[int]*Term{}
	}
	if r, ok := memo[t.ID]; ok {
		return r
	}
	var r *Term
	switch t.Op {
	case OpVar:
		if v, ok := m[t.Name]; ok {
			r = v
		} else {
			r = t
		}
	case OpConst:
		r = t
	default:
		as := make([]*Term, len(t.Args))
		for i, a := range t.Args {
			as[i] = Subst(a, m, memo)
		}
		r = Rebuild(t, as)
	}
	memo[t.ID] = r
	return r
}

// Rebuild applies t's operator to new arguments.
func Rebuild(t *Term, as []*Term) *Term {
	switch t.Op {
	case OpNot:
		return Not(as[0])
	case OpAnd:
		return And(as...)
	case OpOr:
		return Or(as...)
	case OpIte:
		return Ite(as[0], as[1], as[2])
	case OpEq:
		return Eq(as[0], as[1])
	case OpBVAdd, OpBVSub, OpBVMul, OpBVSDiv, OpBVUDiv, OpBVSRem, OpBVURem, OpBVAnd, OpBVOr, OpBVXor, OpBVShl, OpBVLShr, OpBVAShr:
		return BVBin(t.Op, as[0], as[1])
	case OpBVNot, OpBVNeg:
		return BVUn(t.Op, as[0])
	case OpBVSlt, OpBVSle, OpBVUlt, OpBVUle:
		return BVCmp(t.Op, as[0], as[1])
	case OpExtract:
		return Extract(t.P0, t.P1, as[0])
	case OpZeroExt:
		return ZeroExt(t.P0, as[0])
	case OpSignExt:
		return SignExt(t.P0, as[0])
	case OpFPAdd, OpFPSub, OpFPMul, OpFPDiv:
		return FPBin(t.Op, as[0], as[1])
	case OpFPNeg, OpFPAbs:
		return FPUn(t.Op, as[0])
	case OpFPLt, OpFPLe, OpFPEq:
		return FPCmp(t.Op, as[0], as[1])
	case OpFPIsNaN, OpFPIsInf, OpFPIsZero, OpFPIsNeg:
		return FPPred(t.Op, as[0])
	case OpFPRound:
		return FPRound(t.P0, as[0])
	case OpFPToSBV:
		return FPToSBVRaw(t.Sort.W, as[0])
	case OpFPToUBV:
		return FPToUBVRaw(t.Sort.W, as[0])
	case OpSBVToFP:
		return SBVToFP(as[0], t.Sort)
	case OpUBVToFP:
		return UBVToFP(as[0], t.Sort)
	case OpFPToFP:
		return FPToFP(as[0], t.Sort)
	}
	panic(fmt.Sprintf("rebuild: op %d", t.Op))
}
