package smt

import (
	"fmt"
	"math"
	"sort"
	"strings"
)

func rmName(rm int) string {
	return [...]string{"RNE", "RNA", "RTP", "RTN", "RTZ"}[rm]
}

func fpLit(f float64, s Sort) string {
	if s.W == 32 {
		b := math.Float32bits(float32(f))
		if f != f {
			return "(_ NaN 8 24)"
		}
		return fmt.Sprintf("(fp #b%01b #b%08b #b%023b)", b>>31, (b>>23)&0xff, b&0x7fffff)
	}
	if f != f {
		return "(_ NaN 11 53)"
	}
	b := math.Float64bits(f)
	return fmt.Sprintf("(fp #b%01b #b%011b #b%052b)", b>>63, (b>>52)&0x7ff, b&0xfffffffffffff)
}

func bvLit(u uint64, w int) string {
	if w%4 == 0 {
		return fmt.Sprintf("#x%0*x", w/4, u)
	}
	return fmt.Sprintf("#b%0*b", w, u)
}

var opNames = map[Op]string{
	OpNot: "not", OpAnd: "and", OpOr: "or", OpIte: "ite", OpEq: "=",
	OpBVAdd: "bvadd", OpBVSub: "bvsub", OpBVMul: "bvmul", OpBVSDiv: "bvsdiv", OpBVUDiv: "bvudiv",
	OpBVSRem: "bvsrem", OpBVURem: "bvurem", OpBVAnd: "bvand", OpBVOr: "bvor", OpBVXor: "bvxor",
	OpBVNot: "bvnot", OpBVNeg: "bvneg", OpBVShl: "bvshl", OpBVLShr: "bvlshr", OpBVAShr: "bvashr",
	OpBVSlt: "bvslt", OpBVSle: "bvsle", OpBVUlt: "bvult", OpBVUle: "bvule",
	OpFPNeg: "fp.neg", OpFPAbs: "fp.abs", OpFPLt: "fp.lt", OpFPLe: "fp.leq", OpFPEq: "fp.eq",
	OpFPIsNaN: "fp.isNaN", OpFPIsInf: "fp.isInfinite", OpFPIsZero: "fp.isZero", OpFPIsNeg: "fp.isNegative",
}

func (t *Term) head(ref func(*Term) string) string {
	args := make([]string, len(t.Args))
	for i, a := range t.Args {
		args[i] = ref(a)
	}
	j := strings.Join(args, " ")
	switch t.Op {
	case OpVar:
		return "|" + t.Name + "|"
	case OpConst:
		switch t.Sort.K {
		case KBool:
			if t.U == 1 {
				return "true"
			}
			return "false"
		case KBV:
			return bvLit(t.U, t.Sort.W)
		default:
			return fpLit(t.F, t.Sort)
		}
	case OpExtract:
		return fmt.Sprintf("((_ extract %d %d) %s)", t.P0, t.P1, j)
	case OpZeroExt:
		return fmt.Sprintf("((_ zero_extend %d) %s)", t.P0, j)
	case OpSignExt:
		return fmt.Sprintf("((_ sign_extend %d) %s)", t.P0, j)
	case OpFPAdd:
		return "(fp.add RNE " + j + ")"
	case OpFPSub:
		return "(fp.sub RNE " + j + ")"
	case OpFPMul:
		return "(fp.mul RNE " + j + ")"
	case OpFPDiv:
		return "(fp.div RNE " + j + ")"
	case OpFPRound:
		return "(fp.roundToIntegral " + rmName(t.P0) + " " + j + ")"
	case OpFPToSBV:
		return fmt.Sprintf("((_ fp.to_sbv %d) RTZ %s)", t.Sort.W, j)
	case OpFPToUBV:
		return fmt.Sprintf("((_ fp.to_ubv %d) RTZ %s)", t.Sort.W, j)
	case OpSBVToFP:
		if t.Sort.W == 32 {
			return "((_ to_fp 8 24) RNE " + j + ")"
		}
		return "((_ to_fp 11 53) RNE " + j + ")"
	case OpUBVToFP:
		if t.Sort.W == 32 {
			return "((_ to_fp_unsigned 8 24) RNE " + j + ")"
		}
		return "((_ to_fp_unsigned 11 53) RNE " + j + ")"
	case OpFPToFP:
		if t.Sort.W == 32 {
			return "((_ to_fp 8 24) RNE " + j + ")"
		}
		return "((_ to_fp 11 53) RNE " + j + ")"
	}
	n, ok := opNames[t.Op]
	if !ok {
		panic(fmt.Sprintf("no name for op %d", t.Op))
	}
	return "(" + n + " " + j + ")"
}

// Script renders a query: declarations, shared definitions, assertions, check-sat and get-value.
func Script(asserts []*Term, getVals []*Term) string {
	var sb strings.Builder
	// collect DAG in topological order
	var order []*Term
	seen := map[int]bool{}
	var rec func(*Term)
	rec = func(t *Term) {
		if seen[t.ID] {
			return
		}
		seen[t.ID] = true
		for _, a := range t.Args {
			rec(a)
		}
		order = append(order, t)
	}
	for _, a := range asserts {
		rec(a)
	}
	for _, a := range getVals {
		rec(a)
	}
	var vars []*Term
	for _, t := range order {
		if t.Op == OpVar {
			vars = append(vars, t)
		}
	}
	sort.Slice(vars, func(i, j int) bool { return vars[i].Name < vars[j].Name })
	for _, v := range vars {
		fmt.Fprintf(&sb, "(declare-const |%s| %s)\n", v.Name, v.Sort)
	}
	ref := func(t *Term) string {
		if t.Op == OpVar || t.Op == OpConst {
			return t.head(nil)
		}
		return fmt.Sprintf("$t%d", t.ID)
	}
	for _, t := range order {
		if t.Op == OpVar || t.Op == OpConst {
			continue
		}
		fmt.Fprintf(&sb, "(define-fun $t%d () %s %s)\n", t.ID, t.Sort, t.head(ref))
	}
	for _, a := range asserts {
		fmt.Fprintf(&sb, "(assert %s)\n", ref(a))
	}
	sb.WriteString("(check-sat)\n")
	if len(getVals) > 0 {
		sb.WriteString("(get-value (")
		for _, g := range getVals {
			sb.WriteString(ref(g))
			sb.WriteString(" ")
		}
		sb.WriteString("))\n")
	}
	return sb.String()
}

// String renders a term inline (for diagnostics).
func (t *Term) String() string {
	var ref func(*Term) string
	ref = func(x *Term) string { return x.head(ref) }
	s := ref(t)
	if len(s) > 400 {
		return s[:400] + "..."
	}
	return s
}
