package smt

import (
	"bufio"
	"fmt"
	"io"
	"os/exec"
	"sort"
	"strings"
	"sync"
	"time"
)

// Session is a long-lived incremental z3 process (push/pop) for many small integer queries.
type Session struct {
	mu       sync.Mutex
	cmd      *exec.Cmd
	in       io.WriteCloser
	out      *bufio.Reader
	declared map[string]bool
	dead     bool
	wall     time.Duration
	Queries  int
	Seconds  float64
}

func NewSession(timeoutMs int) *Session {
	s := &Session{declared: map[string]bool{}, wall: time.Duration(timeoutMs)*time.Millisecond + 5*time.Second}
	s.cmd = exec.Command("z3", "-in")
	var err error
	s.in, err = s.cmd.StdinPipe()
	if err != nil {
		s.dead = true
		return s
	}
	op, err := s.cmd.StdoutPipe()
	if err != nil {
		s.dead = true
		return s
	}
	s.cmd.Stderr = s.cmd.Stdout
	s.out = bufio.NewReader(op)
	if err := s.cmd.Start(); err != nil {
		s.dead = true
		return s
	}
	fmt.Fprintf(s.in, "(set-option :timeout %d)\n", timeoutMs)
	return s
}

func (s *Session) Close() {
	if s.cmd != nil && s.cmd.Process != nil {
		_ = s.in.Close()
		_ = s.cmd.Process.Kill()
		_, _ = s.cmd.Process.Wait()
	}
	s.dead = true
}

// Check answers whether the conjunction of asserts is satisfiable.
func (s *Session) Check(asserts []*Term) Result {
	s.mu.Lock()
	defer s.mu.Unlock()
	if s.dead {
		return Unknown
	}
	t0 := time.Now()
	var sb strings.Builder
	var order []*Term
	seen := map[int]bool{}
	var rec func(*Term)
	rec = func(t *Term) {
		if seen[t.ID] {
			return
		}
		seen[t.ID] = true
		for _, a := range t.Args {
			rec(a)
		}
		order = append(order, t)
	}
	for _, a := range asserts {
		rec(a)
	}
	var vars []*Term
	for _, t := range order {
		if t.Op == OpVar && !s.declared[t.Name] {
			vars = append(vars, t)
		}
	}
	sort.Slice(vars, func(i, j int) bool { return vars[i].Name < vars[j].Name })
	for _, v := range vars {
		fmt.Fprintf(&sb, "(declare-const |%s| %s)\n", v.Name, v.Sort)
		s.declared[v.Name] = true
	}
	sb.WriteString("(push)\n")
	ref := func(t *Term) string {
		if t.Op == OpVar || t.Op == OpConst {
			return t.head(nil)
		}
		return fmt.Sprintf("$t%d", t.ID)
	}
	for _, t := range order {
		if t.Op == OpVar || t.Op == OpConst {
			continue
		}
		fmt.Fprintf(&sb, "(define-fun $t%d () %s %s)\n", t.ID, t.Sort, t.head(ref))
	}
	for _, a := range asserts {
		fmt.Fprintf(&sb, "(assert %s)\n", ref(a))
	}
	sb.WriteString("(check-sat)\n(pop)\n")
	if _, err := io.WriteString(s.in, sb.String()); err != nil {
		s.dead = true
		return Unknown
	}
	// watchdog: z3's :timeout does not interrupt every tactic; a session that stays silent is killed
	type rd struct {
		line string
		err  error
	}
	ch := make(chan rd, 1)
	go func() {
		l, e := s.out.ReadString('\n')
		ch <- rd{l, e}
	}()
	var line string
	var err error
	select {
	case r := <-ch:
		line, err = r.line, r.err
	case <-time.After(s.wall):
		s.dead = true
		if s.cmd.Process != nil {
			_ = s.cmd.Process.Kill()
		}
		s.Queries++
		s.Seconds += time.Since(t0).Seconds()
		return Unknown
	}
	s.Queries++
	s.Seconds += time.Since(t0).Seconds()
	if err != nil {
		s.dead = true
		return Unknown
	}
	switch strings.TrimSpace(line) {
	case "sat":
		return Sat
	case "unsat":
		return Unsat
	case "unknown":
		return Unknown
	}
	// an error line: the session state is no longer trusted
	s.dead = true
	return Unknown
}

// Dead reports whether the session can no longer be used (killed by the watchdog or failed).
func (s *Session) Dead() bool { return s.dead }
