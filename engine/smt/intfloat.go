package smt

import "math"

// SimplifyIntFloat rewrites a query so that floating-point sub-terms which provably carry
// small integers are computed on bit-vectors instead. It is an equivalence-preserving rewrite
// *under the query's own top-level bounds*: variable bounds are read off the asserted conjuncts
// (x <= c, c <= x, ...), intervals are propagated bottom-up, and the following identities are
// applied only when every integer involved lies strictly inside +-2^52 (where int64 -> float64
// conversion, addition and subtraction are exact):
//
//	to_fp(a) +- to_fp(b)            = to_fp(a +- b)
//	roundToIntegral(to_fp(a))       = to_fp(a)
//	to_sbv(to_fp(a))                = a
//	to_fp(a) < / <= / == to_fp(b)   = a < / <= / == b          (also against FP constants)
//	isNaN / isInf(to_fp(a))         = false
//	ite(c, to_fp(a), to_fp(b))      = to_fp(ite(c, a, b))
//
// Typical effect: the controller's Coerce(float64(target),0,255) -> Round -> int() chain on a
// value bounded by the path condition becomes a bit-vector clamp.
func SimplifyIntFloat(asserts []*Term) []*Term {
	s := &ifs{lo: map[*Term]int64{}, hi: map[*Term]int64{}, memo: map[*Term]*Term{}, ivm: map[*Term]ival{}, fim: map[*Term]fint{}}
	// flatten top-level conjunctions; atoms that supply variable bounds are kept verbatim
	// (rewriting them under the bounds they themselves provide would erase them)
	var flat []*Term
	var fl func(*Term)
	fl = func(a *Term) {
		if a.Op == OpAnd {
			for _, x := range a.Args {
				fl(x)
			}
			return
		}
		flat = append(flat, a)
	}
	for _, a := range asserts {
		fl(a)
	}
	isBound := make([]bool, len(flat))
	for i, a := range flat {
		isBound[i] = s.collect(a)
	}
	out := make([]*Term, len(flat))
	for i, a := range flat {
		if isBound[i] {
			out[i] = a
		} else {
			out[i] = s.rw(a)
		}
	}
	return out
}

const small = int64(1) << 52

type ival struct {
	lo, hi int64
	ok     bool
}

type fint struct {
	i      *Term // integer term with to_fp(i) == the FP term
	lo, hi int64
	ok     bool
}

type ifs struct {
	lo, hi map[*Term]int64
	memo   map[*Term]*Term
	ivm    map[*Term]ival
	fim    map[*Term]fint
}

func (s *ifs) setLo(v *Term, c int64) {
	if o, ok := s.lo[v]; !ok || c > o {
		s.lo[v] = c
	}
}
func (s *ifs) setHi(v *Term, c int64) {
	if o, ok := s.hi[v]; !ok || c < o {
		s.hi[v] = c
	}
}

// collect reads a variable bound from a top-level atom; it reports whether the atom supplied one.
func (s *ifs) collect(a *Term) bool {
	switch a.Op {
	case OpNot:
		n := a.Args[0]
		if (n.Op == OpBVSlt || n.Op == OpBVSle) && n.Args[0].Sort.W == 64 {
			x, y := n.Args[0], n.Args[1]
			// not (x < y) = y <= x ; not (x <= y) = y < x
			strict := n.Op == OpBVSle
			return s.bound(y, x, strict)
		}
	case OpBVSle, OpBVSlt:
		if a.Args[0].Sort.W == 64 {
			return s.bound(a.Args[0], a.Args[1], a.Op == OpBVSlt)
		}
	case OpEq:
		x, y := a.Args[0], a.Args[1]
		if x.Sort.K == KBV && x.Sort.W == 64 {
			if x.Op == OpVar && y.IsConst() {
				s.setLo(x, y.SInt())
				s.setHi(x, y.SInt())
				return true
			} else if y.Op == OpVar && x.IsConst() {
				s.setLo(y, x.SInt())
				s.setHi(y, x.SInt())
				return true
			}
		}
	}
	return false
}

// bound records x <= y (or x < y) when one side is a variable and the other a constant.
func (s *ifs) bound(x, y *Term, strict bool) bool {
	d := int64(0)
	if strict {
		d = 1
	}
	if x.Op == OpVar && y.IsConst() {
		c := y.SInt()
		if c > math.MinInt64+1 {
			s.setHi(x, c-d)
			return true
		}
	} else if y.Op == OpVar && x.IsConst() {
		c := x.SInt()
		if c < math.MaxInt64-1 {
			s.setLo(y, c+d)
			return true
		}
	}
	return false
}

// iv: interval of a 64-bit integer term (ok=false when unknown or not small).
func (s *ifs) iv(t *Term) ival {
	if r, ok := s.ivm[t]; ok {
		return r
	}
	r := s.iv0(t)
	if r.ok && (r.lo <= -small || r.hi >= small) {
		r.ok = false
	}
	s.ivm[t] = r
	return r
}

func (s *ifs) iv0(t *Term) ival {
	if t.Sort.K != KBV || t.Sort.W != 64 {
		return ival{}
	}
	switch t.Op {
	case OpConst:
		return ival{t.SInt(), t.SInt(), true}
	case OpVar:
		lo, ok1 := s.lo[t]
		hi, ok2 := s.hi[t]
		if ok1 && ok2 && lo <= hi {
			return ival{lo, hi, true}
		}
	case OpBVAdd:
		a, b := s.iv(t.Args[0]), s.iv(t.Args[1])
		if a.ok && b.ok {
			return ival{a.lo + b.lo, a.hi + b.hi, true}
		}
	case OpBVSub:
		a, b := s.iv(t.Args[0]), s.iv(t.Args[1])
		if a.ok && b.ok {
			return ival{a.lo - b.hi, a.hi - b.lo, true}
		}
	case OpBVNeg:
		a := s.iv(t.Args[0])
		if a.ok {
			return ival{-a.hi, -a.lo, true}
		}
	case OpBVMul:
		for k := 0; k < 2; k++ {
			c, x := t.Args[k], t.Args[1-k]
			if c.IsConst() {
				a := s.iv(x)
				m := c.SInt()
				if a.ok && m >= 0 && m <= 1<<31 && a.lo > -(1<<20) && a.hi < 1<<20 {
					return ival{a.lo * m, a.hi * m, true}
				}
			}
		}
	case OpIte:
		a, b := s.iv(t.Args[1]), s.iv(t.Args[2])
		if a.ok && b.ok {
			return ival{min(a.lo, b.lo), max(a.hi, b.hi), true}
		}
	case OpFPToSBV:
		f := s.fi(t.Args[0])
		if f.ok {
			return ival{f.lo, f.hi, true}
		}
	}
	return ival{}
}

// fi: an FP64 term that equals to_fp(i) for a small integer term i.
func (s *ifs) fi(t *Term) fint {
	if r, ok := s.fim[t]; ok {
		return r
	}
	r := s.fi0(t)
	if r.ok && (r.lo <= -small || r.hi >= small) {
		r.ok = false
	}
	s.fim[t] = r
	return r
}

func (s *ifs) fi0(t *Term) fint {
	if t.Sort != FP64 {
		return fint{}
	}
	switch t.Op {
	case OpConst:
		f := t.F
		if f == math.Trunc(f) && math.Abs(f) < float64(small) && !(f == 0 && math.Signbit(f)) {
			return fint{IntC(int64(f)), int64(f), int64(f), true}
		}
	case OpSBVToFP:
		if t.Args[0].Sort.W == 64 {
			a := s.iv(t.Args[0])
			if a.ok {
				return fint{s.rw(t.Args[0]), a.lo, a.hi, true}
			}
		}
	case OpFPAdd, OpFPSub:
		a, b := s.fi(t.Args[0]), s.fi(t.Args[1])
		if a.ok && b.ok {
			if t.Op == OpFPAdd {
				return fint{BVBin(OpBVAdd, a.i, b.i), a.lo + b.lo, a.hi + b.hi, true}
			}
			return fint{BVBin(OpBVSub, a.i, b.i), a.lo - b.hi, a.hi - b.lo, true}
		}
	case OpFPNeg:
		a := s.fi(t.Args[0])
		// -0.0 is not an integer image: exclude intervals containing 0
		if a.ok && (a.lo > 0 || a.hi < 0) {
			return fint{BVUn(OpBVNeg, a.i), -a.hi, -a.lo, true}
		}
	case OpFPRound:
		return s.fi(t.Args[0])
	case OpIte:
		a, b := s.fi(t.Args[1]), s.fi(t.Args[2])
		if a.ok && b.ok {
			return fint{Ite(s.rw(t.Args[0]), a.i, b.i), min(a.lo, b.lo), max(a.hi, b.hi), true}
		}
	}
	return fint{}
}

// fnn: the FP64 term is finite and >= +0 (never NaN, never -0), with an upper bound.
func (s *ifs) fnn(t *Term) (bool, float64) {
	if t.Sort != FP64 {
		return false, 0
	}
	switch t.Op {
	case OpConst:
		if t.F == t.F && !math.IsInf(t.F, 0) && t.F >= 0 && !math.Signbit(t.F) {
			return true, t.F
		}
	case OpSBVToFP:
		if t.Args[0].Sort.W == 64 {
			if a := s.iv(t.Args[0]); a.ok && a.lo >= 0 {
				return true, float64(a.hi)
			}
		}
	case OpFPDiv:
		if ok, ub := s.fnn(t.Args[0]); ok && t.Args[1].IsConst() && t.Args[1].F > 0 && !math.IsInf(t.Args[1].F, 0) {
			return true, ub/t.Args[1].F*1.0000001 + 1e-300
		}
	case OpFPAdd:
		ok1, u1 := s.fnn(t.Args[0])
		ok2, u2 := s.fnn(t.Args[1])
		if ok1 && ok2 && u1+u2 < 1e300 {
			return true, (u1 + u2) * 1.0000001
		}
	case OpFPMul:
		ok1, u1 := s.fnn(t.Args[0])
		ok2, u2 := s.fnn(t.Args[1])
		if ok1 && ok2 && u1 < 1e150 && u2 < 1e150 {
			return true, u1 * u2 * 1.0000001
		}
	}
	return false, 0
}

// fin: the FP64 term is finite (never NaN, never infinite), with a bound on its magnitude.
func (s *ifs) fin(t *Term) (bool, float64) {
	if t.Sort != FP64 {
		return false, 0
	}
	switch t.Op {
	case OpConst:
		if t.F == t.F && !math.IsInf(t.F, 0) {
			return true, math.Abs(t.F)
		}
	case OpSBVToFP, OpUBVToFP:
		return true, 1.9e19
	case OpFPDiv:
		if ok, ub := s.fin(t.Args[0]); ok && t.Args[1].IsConst() && t.Args[1].F != 0 && !math.IsInf(t.Args[1].F, 0) && t.Args[1].F == t.Args[1].F {
			if q := ub / math.Abs(t.Args[1].F); q < 1e300 {
				return true, q*1.0000001 + 1e-300
			}
		}
	case OpFPAdd, OpFPSub:
		ok1, u1 := s.fin(t.Args[0])
		ok2, u2 := s.fin(t.Args[1])
		if ok1 && ok2 && u1+u2 < 1e300 {
			return true, (u1 + u2) * 1.0000001
		}
	case OpFPNeg, OpFPAbs, OpFPRound:
		return s.fin(t.Args[0])
	case OpIte:
		ok1, u1 := s.fin(t.Args[1])
		ok2, u2 := s.fin(t.Args[2])
		if ok1 && ok2 {
			return true, math.Max(u1, u2)
		}
	}
	return false, 0
}

// cmpConst decides an FP comparison of an integer-valued term against an arbitrary FP constant.
func cmpIntConst(op Op, f fint, c float64, constLeft bool) (*Term, bool) {
	if c != c {
		return False, true // comparisons with NaN are false
	}
	// bring to "i OP c" form
	type rel int
	const (
		lt rel = iota
		le
		gt
		ge
		eq
	)
	var r rel
	switch op {
	case OpFPLt:
		r = lt
		if constLeft {
			r = gt
		}
	case OpFPLe:
		r = le
		if constLeft {
			r = ge
		}
	case OpFPEq:
		r = eq
	default:
		return nil, false
	}
	if math.IsInf(c, 1) {
		return BoolC(r == lt || r == le), true
	}
	if math.IsInf(c, -1) {
		return BoolC(r == gt || r == ge), true
	}
	if math.Abs(c) >= float64(small) {
		// the constant is beyond every small integer
		if c > 0 {
			return BoolC(r == lt || r == le), true
		}
		return BoolC(r == gt || r == ge), true
	}
	fl, ce := math.Floor(c), math.Ceil(c)
	switch r {
	case lt: // i < c  <=> i < ceil(c)  (i integer)
		return BVCmp(OpBVSlt, f.i, IntC(int64(ce))), true
	case le: // i <= c <=> i <= floor(c)
		return BVCmp(OpBVSle, f.i, IntC(int64(fl))), true
	case gt: // i > c  <=> i > floor(c)
		return BVCmp(OpBVSlt, IntC(int64(fl)), f.i), true
	case ge: // i >= c <=> i >= ceil(c)
		return BVCmp(OpBVSle, IntC(int64(ce)), f.i), true
	default:
		if fl != c {
			return False, true
		}
		return Eq(f.i, IntC(int64(c))), true
	}
}

func (s *ifs) rw(t *Term) *Term {
	if r, ok := s.memo[t]; ok {
		return r
	}
	r := s.rw0(t)
	s.memo[t] = r
	return r
}

func (s *ifs) rw0(t *Term) *Term {
	if len(t.Args) == 0 {
		return t
	}
	switch t.Op {
	case OpFPLt, OpFPLe, OpFPEq:
		x, y := t.Args[0], t.Args[1]
		if x.Sort == FP64 {
			a, b := s.fi(x), s.fi(y)
			if a.ok && b.ok {
				switch t.Op {
				case OpFPLt:
					return BVCmp(OpBVSlt, a.i, b.i)
				case OpFPLe:
					return BVCmp(OpBVSle, a.i, b.i)
				default:
					return Eq(a.i, b.i)
				}
			}
			if a.ok && y.IsConst() {
				if r, ok := cmpIntConst(t.Op, a, y.F, false); ok {
					return r
				}
			}
			if b.ok && x.IsConst() {
				if r, ok := cmpIntConst(t.Op, b, x.F, true); ok {
					return r
				}
			}
		}
	case OpBVSlt, OpBVSle:
		if t.Args[0].Sort.W == 64 {
			a, b := s.iv(t.Args[0]), s.iv(t.Args[1])
			if a.ok && b.ok {
				if t.Op == OpBVSlt {
					if a.hi < b.lo {
						return True
					}
					if a.lo >= b.hi {
						return False
					}
				} else {
					if a.hi <= b.lo {
						return True
					}
					if a.lo > b.hi {
						return False
					}
				}
			}
		}
	case OpFPIsNaN, OpFPIsInf:
		if s.fi(t.Args[0]).ok {
			return False
		}
	case OpFPToSBV:
		if t.Sort.W == 64 {
			if f := s.fi(t.Args[0]); f.ok {
				return f.i
			}
		}
	case OpFPAdd, OpFPSub, OpFPRound, OpFPNeg:
		if f := s.fi(t); f.ok {
			return SBVToFP(f.i, FP64)
		}
	case OpFPMul:
		// (+0) * y = +0 for every finite y >= +0
		for k := 0; k < 2; k++ {
			z, y := t.Args[k], t.Args[1-k]
			if f := s.fi(z); f.ok && ((f.lo == 0 && f.hi == 0) || (f.i.IsConst() && f.i.U == 0)) {
				if ok, _ := s.fnn(s.rw(y)); ok {
					return FPC(0)
				}
				if ok, _ := s.fnn(y); ok {
					return FPC(0)
				}
				// finite y of unknown sign: (+0)*y is a zero carrying y's sign
				if ok, _ := s.fin(y); ok {
					ry := s.rw(y)
					return Ite(FPPred(OpFPIsNeg, ry), FPC(math.Copysign(0, -1)), FPC(0))
				}
			}
		}
	case OpIte:
		if t.Sort == FP64 {
			if f := s.fi(t); f.ok {
				return SBVToFP(f.i, FP64)
			}
		}
	}
	as := make([]*Term, len(t.Args))
	changed := false
	for i, a := range t.Args {
		as[i] = s.rw(a)
		if as[i] != a {
			changed = true
		}
	}
	if !changed {
		return t
	}
	return Rebuild(t, as)
}
