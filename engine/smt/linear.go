package smt

import "sort"

// LinNorm normalises a 64-bit bit-vector term built from +, -, unary minus and multiplication by
// constants into a canonical sum of atoms (arithmetic modulo 2^64 is a commutative ring, so this
// is an equivalence): (b + x + y) - (b + x) becomes y.
func LinNorm(t *Term) *Term {
	if t.Sort.K != KBV || t.Sort.W != 64 {
		return t
	}
	coef := map[*Term]uint64{}
	var k uint64
	var walk func(x *Term, c uint64)
	walk = func(x *Term, c uint64) {
		switch x.Op {
		case OpConst:
			k += c * x.U
		case OpBVAdd:
			walk(x.Args[0], c)
			walk(x.Args[1], c)
		case OpBVSub:
			walk(x.Args[0], c)
			walk(x.Args[1], -c)
		case OpBVNeg:
			walk(x.Args[0], -c)
		case OpBVMul:
			if x.Args[0].IsConst() {
				walk(x.Args[1], c*x.Args[0].U)
			} else if x.Args[1].IsConst() {
				walk(x.Args[0], c*x.Args[1].U)
			} else {
				coef[x] += c
			}
		default:
			coef[x] += c
		}
	}
	walk(t, 1)
	var atoms []*Term
	for a, c := range coef {
		if c != 0 {
			atoms = append(atoms, a)
		}
	}
	sort.Slice(atoms, func(i, j int) bool { return atoms[i].ID < atoms[j].ID })
	var r *Term
	add := func(x *Term) {
		if r == nil {
			r = x
		} else {
			r = BVBin(OpBVAdd, r, x)
		}
	}
	for _, a := range atoms {
		c := coef[a]
		switch c {
		case 1:
			add(a)
		case ^uint64(0):
			if r == nil {
				r = BVUn(OpBVNeg, a)
			} else {
				r = BVBin(OpBVSub, r, a)
			}
		default:
			add(BVBin(OpBVMul, BVC(c, 64), a))
		}
	}
	if r == nil {
		return BVC(k, 64)
	}
	if k != 0 {
		r = BVBin(OpBVAdd, r, BVC(k, 64))
	}
	return r
}
