package smt

import (
	"fmt"
	"sync"
	"time"
)

// GoFloatToInt models Go's float→signed-integer conversion as the amd64 backend performs it:
// truncation when the value is representable, 0x8000000000000000 otherwise (NaN, ±Inf, overflow).
func GoFloatToInt(x *Term, w int) *Term {
	x64 := x
	if x.Sort.W == 32 {
		x64 = FPToFP(x, FP64)
	}
	lim := FPC(9.223372036854775808e18)
	bad := Or(FPPred(OpFPIsNaN, x64), FPCmp(OpFPLe, lim, x64), FPCmp(OpFPLt, x64, FPC(-9.223372036854775808e18)))
	if bad.IsConst() {
		if bad.IsTrue() {
			return Extract(w-1, 0, BVC(1<<63, 64))
		}
		return Extract(w-1, 0, FPToSBVRaw(64, x64))
	}
	r := Ite(bad, BVC(1<<63, 64), FPToSBVRaw(64, x64))
	return Extract(w-1, 0, r)
}

// ---------------------------------------------------------------------------------------------
// Kernel lemmas.
//
// The controller's rescale  lo + int((float64(t)/255) * (float64(hi) - float64(lo)))  appears in
// every verification condition of a control cycle and costs a floating-point query of 1-2 minutes
// each time. Instead it is recognised *structurally in the term DAG produced from the current
// source* (never assumed from the source text), three facts about exactly that term shape are
// proved once per run for all 64-bit t, lo, hi (range, end points, monotonicity in t), and every
// occurrence is then replaced by a fresh integer constrained by the proved facts. If the source
// no longer produces that shape, nothing matches and the queries keep their floating-point terms.
// A counterexample found under the abstraction is re-checked without it before it is used.
// ---------------------------------------------------------------------------------------------

func buildRescale(t, lo, hi *Term) *Term {
	f := FPBin(OpFPMul, FPBin(OpFPDiv, SBVToFP(t, FP64), FPC(255)), FPBin(OpFPSub, SBVToFP(hi, FP64), SBVToFP(lo, FP64)))
	return BVBin(OpBVAdd, lo, GoFloatToInt(f, 64))
}

func matchRescale(x *Term) (t, lo, hi *Term, ok bool) {
	if x.Op != OpBVAdd || x.Sort.W != 64 || len(x.Args) != 2 {
		return
	}
	for _, ord := range [][2]int{{0, 1}, {1, 0}} {
		l, c := x.Args[ord[0]], x.Args[ord[1]]
		if c.Op != OpIte || c.Args[2].Op != OpFPToSBV {
			continue
		}
		f := c.Args[2].Args[0]
		if f.Op != OpFPMul {
			continue
		}
		a, b := f.Args[0], f.Args[1]
		if a.Op != OpFPDiv || a.Args[0].Op != OpSBVToFP || b.Op != OpFPSub || b.Args[0].Op != OpSBVToFP || b.Args[1].Op != OpSBVToFP {
			continue
		}
		tt, h, l2 := a.Args[0].Args[0], b.Args[0].Args[0], b.Args[1].Args[0]
		if l2 != l || tt.Sort.W != 64 || h.Sort.W != 64 {
			continue
		}
		if buildRescale(tt, l, h) == x {
			return tt, l, h, true
		}
	}
	return
}

func rescalePre(t, lo, hi *Term) *Term {
	z, m := IntC(0), IntC(255)
	return And(Sle(z, t), Sle(t, m), Sle(z, lo), Sle(lo, hi), Sle(hi, m))
}

type LemmaStatus struct {
	Name    string
	Proved  bool
	Result  string
	Seconds float64
	Solver  string
}

var (
	lemmaMu     sync.Mutex
	lemmaOnce   = map[string]*sync.Once{}
	lemmaStat   = map[string]*LemmaStatus{}
	LemmaCap    = 300 * time.Second
	LemmasOff   = false
	LemmaSolver = CVC5
)

func proveLemma(name string, negation []*Term) *LemmaStatus {
	lemmaMu.Lock()
	o, ok := lemmaOnce[name]
	if !ok {
		o = &sync.Once{}
		lemmaOnce[name] = o
	}
	lemmaMu.Unlock()
	o.Do(func() {
		a := Solve(LemmaSolver, negation, nil, LemmaCap)
		st := &LemmaStatus{Name: name, Proved: a.Res == Unsat, Result: a.Res.String(), Seconds: a.Seconds, Solver: a.Solver}
		lemmaMu.Lock()
		lemmaStat[name] = st
		lemmaMu.Unlock()
	})
	lemmaMu.Lock()
	defer lemmaMu.Unlock()
	return lemmaStat[name]
}

// Lemmas reports the kernel lemmas attempted in this run.
func Lemmas() []LemmaStatus {
	lemmaMu.Lock()
	defer lemmaMu.Unlock()
	var out []LemmaStatus
	for _, n := range []string{"rescale.range", "rescale.ends", "rescale.monotone"} {
		if s, ok := lemmaStat[n]; ok {
			out = append(out, *s)
		}
	}
	return out
}

func genericVars() (t, lo, hi, t2 *Term) {
	return Var("lemma!t", BV64), Var("lemma!lo", BV64), Var("lemma!hi", BV64), Var("lemma!t2", BV64)
}

func rangeLemma() bool {
	t, lo, hi, _ := genericVars()
	r := buildRescale(t, lo, hi)
	s := proveLemma("rescale.range", []*Term{rescalePre(t, lo, hi), Not(And(Sle(lo, r), Sle(r, hi)))})
	return s.Proved
}

func endsLemma() bool {
	_, lo, hi, _ := genericVars()
	pre := rescalePre(IntC(0), lo, hi)
	s := proveLemma("rescale.ends", []*Term{pre, Not(And(Eq(buildRescale(IntC(0), lo, hi), lo), Eq(buildRescale(IntC(255), lo, hi), hi)))})
	return s.Proved
}

func monoLemma() bool {
	t, lo, hi, t2 := genericVars()
	s := proveLemma("rescale.monotone", []*Term{rescalePre(t, lo, hi), rescalePre(t2, lo, hi), Sle(t, t2), Not(Sle(buildRescale(t, lo, hi), buildRescale(t2, lo, hi)))})
	return s.Proved
}

// Replace substitutes whole sub-terms (top-down: a replaced node is not descended into).
func Replace(t *Term, m map[*Term]*Term, memo map[*Term]*Term) *Term {
	if r, ok := m[t]; ok {
		return r
	}
	if r, ok := memo[t]; ok {
		return r
	}
	if len(t.Args) == 0 {
		return t
	}
	as := make([]*Term, len(t.Args))
	changed := false
	for i, a := range t.Args {
		as[i] = Replace(a, m, memo)
		if as[i] != a {
			changed = true
		}
	}
	r := t
	if changed {
		r = Rebuild(t, as)
	}
	memo[t] = r
	return r
}

type rescaleInst struct {
	m, t, lo, hi, v *Term
}

// AbstractKernels rewrites the assertions, replacing recognised rescale kernels by fresh integers
// constrained by proved lemmas. needMono asks for the monotonicity lemma (two or more instances).
// It returns the new assertions and the number of instances abstracted (0 = unchanged).
func AbstractKernels(asserts []*Term) ([]*Term, int) {
	if LemmasOff {
		return asserts, 0
	}
	var insts []*rescaleInst
	seen := map[*Term]bool{}
	var walk func(*Term)
	walk = func(x *Term) {
		if seen[x] {
			return
		}
		seen[x] = true
		if t, lo, hi, ok := matchRescale(x); ok {
			insts = append(insts, &rescaleInst{m: x, t: t, lo: lo, hi: hi})
		}
		for _, a := range x.Args {
			walk(a)
		}
	}
	for _, a := range asserts {
		walk(a)
	}
	if len(insts) == 0 {
		return asserts, 0
	}
	if !rangeLemma() || !endsLemma() {
		return asserts, 0
	}
	repl := map[*Term]*Term{}
	for _, in := range insts {
		in.v = Var(fmt.Sprintf("rescale!%d", in.m.ID), BV64)
		repl[in.m] = in.v
	}
	memo := map[*Term]*Term{}
	var facts []*Term
	for _, in := range insts {
		pre := rescalePre(in.t, in.lo, in.hi)
		facts = append(facts,
			Implies(pre, And(Sle(in.lo, in.v), Sle(in.v, in.hi))),
			Implies(And(pre, Eq(in.t, IntC(0))), Eq(in.v, in.lo)),
			Implies(And(pre, Eq(in.t, IntC(255))), Eq(in.v, in.hi)))
	}
	needMono := false
	for i := range insts {
		for j := range insts {
			if i != j && insts[i].lo == insts[j].lo && insts[i].hi == insts[j].hi {
				needMono = true
			}
		}
	}
	if needMono && monoLemma() {
		for i := range insts {
			for j := range insts {
				a, b := insts[i], insts[j]
				if i == j || a.lo != b.lo || a.hi != b.hi {
					continue
				}
				pre := And(rescalePre(a.t, a.lo, a.hi), rescalePre(b.t, b.lo, b.hi))
				facts = append(facts, Implies(And(pre, Sle(a.t, b.t)), Sle(a.v, b.v)))
			}
		}
	}
	out := make([]*Term, 0, len(asserts)+len(facts))
	for _, a := range asserts {
		out = append(out, Replace(a, repl, memo))
	}
	for _, f := range facts {
		out = append(out, Replace(f, repl, memo))
	}
	return out, len(insts)
}
