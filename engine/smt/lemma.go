package smt

import (
	"fmt"
	"os"
	"sync"
	"time"
)

// GoFloatToInt models Go's float→signed-integer conversion as the amd64 backend performs it:
// truncation when the value is representable, 0x8000000000000000 otherwise (NaN, ±Inf, overflow).
func GoFloatToInt(x *Term, w int) *Term {
	if w == 64 && x.Sort == FP64 {
		// exactness shortcut: int(float64(a)), int(float64(a) +- float64(b)) equal a, a +- b whenever
		// the integers are below 2^52 in magnitude (conversions, sum and truncation are then exact);
		// outside that range the floating-point expression is kept.
		small := func(t *Term) *Term {
			return And(Slt(IntC(-(1<<52)), t), Slt(t, IntC(1<<52)))
		}
		asInt := func(t *Term) (*Term, bool) {
			if t.Op == OpSBVToFP && t.Args[0].Sort.W == 64 {
				return t.Args[0], true
			}
			return nil, false
		}
		if a, ok := asInt(x); ok {
			return Ite(small(a), a, goFloatToIntRaw(x, w))
		}
		if x.Op == OpFPSub || x.Op == OpFPAdd {
			a, ok1 := asInt(x.Args[0])
			b, ok2 := asInt(x.Args[1])
			if ok1 && ok2 {
				var r *Term
				if x.Op == OpFPSub {
					r = BVBin(OpBVSub, a, b)
				} else {
					r = BVBin(OpBVAdd, a, b)
				}
				return Ite(And(small(a), small(b)), r, goFloatToIntRaw(x, w))
			}
		}
	}
	return goFloatToIntRaw(x, w)
}

func goFloatToIntRaw(x *Term, w int) *Term {
	x64 := x
	if x.Sort.W == 32 {
		x64 = FPToFP(x, FP64)
	}
	lim := FPC(9.223372036854775808e18)
	bad := Or(FPPred(OpFPIsNaN, x64), FPCmp(OpFPLe, lim, x64), FPCmp(OpFPLt, x64, FPC(-9.223372036854775808e18)))
	if bad.IsConst() {
		if bad.IsTrue() {
			return Extract(w-1, 0, BVC(1<<63, 64))
		}
		return Extract(w-1, 0, FPToSBVRaw(64, x64))
	}
	r := Ite(bad, BVC(1<<63, 64), FPToSBVRaw(64, x64))
	return Extract(w-1, 0, r)
}

// ---------------------------------------------------------------------------------------------
// Kernel lemmas.
//
// The controller's rescale  lo + int((float64(t)/255) * (float64(hi) - float64(lo)))  appears in
// every verification condition of a control cycle and costs a floating-point query of 1-2 minutes
// each time. Instead it is recognised *structurally in the term DAG produced from the current
// source* (never assumed from the source text), three facts about exactly that term shape are
// proved once per run for all 64-bit t, lo, hi (range, end points, monotonicity in t), and every
// occurrence is then replaced by a fresh integer constrained by the proved facts. If the source
// no longer produces that shape, nothing matches and the queries keep their floating-point terms.
// A counterexample found under the abstraction is re-checked without it before it is used.
// ---------------------------------------------------------------------------------------------

func buildRescale(t, lo, hi *Term) *Term {
	f := FPBin(OpFPMul, FPBin(OpFPDiv, SBVToFP(t, FP64), FPC(255)), FPBin(OpFPSub, SBVToFP(hi, FP64), SBVToFP(lo, FP64)))
	return BVBin(OpBVAdd, lo, GoFloatToInt(f, 64))
}

func matchRescale(x *Term) (t, lo, hi *Term, ok bool) {
	// constant limits with lo = 0 fold the addition and the subtraction away:
	//   ite(bad, MinInt, to_sbv((to_fp(t)/255) * C))   with C = float64(hi)
	if x.Op == OpIte && x.Sort.W == 64 && x.Args[2].Op == OpFPToSBV {
		f := x.Args[2].Args[0]
		if f.Op == OpFPMul && f.Args[0].Op == OpFPDiv && f.Args[0].Args[0].Op == OpSBVToFP && f.Args[1].IsConst() {
			c := f.Args[1].F
			tt := f.Args[0].Args[0].Args[0]
			if c == float64(int64(c)) && c >= 0 && c <= 255 && tt.Sort.W == 64 {
				l, h := IntC(0), IntC(int64(c))
				if buildRescale(tt, l, h) == x {
					return tt, l, h, true
				}
			}
		}
	}
	if x.Op != OpBVAdd || x.Sort.W != 64 || len(x.Args) != 2 {
		return
	}
	for _, ord := range [][2]int{{0, 1}, {1, 0}} {
		l, c := x.Args[ord[0]], x.Args[ord[1]]
		if c.Op != OpIte || c.Args[2].Op != OpFPToSBV {
			continue
		}
		f := c.Args[2].Args[0]
		if f.Op != OpFPMul {
			continue
		}
		a, b := f.Args[0], f.Args[1]
		if a.Op != OpFPDiv || a.Args[0].Op != OpSBVToFP || b.Op != OpFPSub || b.Args[0].Op != OpSBVToFP || b.Args[1].Op != OpSBVToFP {
			continue
		}
		tt, h, l2 := a.Args[0].Args[0], b.Args[0].Args[0], b.Args[1].Args[0]
		if l2 != l || tt.Sort.W != 64 || h.Sort.W != 64 {
			continue
		}
		if buildRescale(tt, l, h) == x {
			return tt, l, h, true
		}
	}
	return
}

func rescalePre(t, lo, hi *Term) *Term {
	z, m := IntC(0), IntC(255)
	return And(Sle(z, t), Sle(t, m), Sle(z, lo), Sle(lo, hi), Sle(hi, m))
}

type LemmaStatus struct {
	Name    string
	Proved  bool
	Result  string
	Seconds float64
	Solver  string
	Cases   int
}

var (
	lemmaMu     sync.Mutex
	lemmaOnce   = map[string]*sync.Once{}
	lemmaStat   = map[string]*LemmaStatus{}
	LemmaCap    = 300 * time.Second
	LemmasOff   = false
	LemmaSolver = CVC5
)

// proveLemma proves a lemma once per run. The negation is given as a list of alternative
// case-split queries (all must be unsat); they run in parallel.
func proveLemma(name string, cases [][]*Term) *LemmaStatus {
	lemmaMu.Lock()
	o, ok := lemmaOnce[name]
	if !ok {
		o = &sync.Once{}
		lemmaOnce[name] = o
	}
	lemmaMu.Unlock()
	o.Do(func() {
		t0 := time.Now()
		res := make([]Result, len(cases))
		var wg sync.WaitGroup
		for i := range cases {
			wg.Add(1)
			go func(i int) {
				defer wg.Done()
				res[i] = Solve(LemmaSolver, cases[i], nil, LemmaCap).Res
			}(i)
		}
		wg.Wait()
		st := &LemmaStatus{Name: name, Proved: true, Result: "unsat", Solver: versionOf(LemmaSolver), Cases: len(cases)}
		for _, r := range res {
			if r != Unsat {
				st.Proved = false
				st.Result = r.String()
			}
		}
		st.Seconds = time.Since(t0).Seconds()
		lemmaMu.Lock()
		lemmaStat[name] = st
		lemmaMu.Unlock()
	})
	lemmaMu.Lock()
	defer lemmaMu.Unlock()
	return lemmaStat[name]
}

// Lemmas reports the kernel lemmas attempted in this run.
func Lemmas() []LemmaStatus {
	lemmaMu.Lock()
	defer lemmaMu.Unlock()
	var out []LemmaStatus
	for _, n := range []string{"rescale.range", "rescale.ends", "rescale.identity", "rescale.monotone"} {
		if s, ok := lemmaStat[n]; ok {
			out = append(out, *s)
		}
	}
	return out
}

// The lemmas are stated over 8-bit variables zero-extended to 64 bits: every 64-bit value that
// satisfies the precondition 0 <= x <= 255 is the zero-extension of its low byte, so this covers
// exactly the instances the facts are used for.
func genericVars() (t, lo, hi *Term, t8 *Term) {
	t8 = Var("lemma!t", BV8)
	return ZeroExt(56, t8), ZeroExt(56, Var("lemma!lo", BV8)), ZeroExt(56, Var("lemma!hi", BV8)), t8
}

func rangeLemma() bool {
	t, lo, hi, t8 := genericVars()
	r := buildRescale(t, lo, hi)
	var cases [][]*Term
	for k := 0; k < 4; k++ {
		cases = append(cases, []*Term{Eq(Extract(7, 6, t8), BVC(uint64(k), 2)), rescalePre(t, lo, hi), Not(And(Sle(lo, r), Sle(r, hi)))})
	}
	return proveLemma("rescale.range", cases).Proved
}

func endsLemma() bool {
	_, lo, hi, _ := genericVars()
	pre := rescalePre(IntC(0), lo, hi)
	return proveLemma("rescale.ends", [][]*Term{{pre, Not(And(Eq(buildRescale(IntC(0), lo, hi), lo), Eq(buildRescale(IntC(255), lo, hi), hi)))}}).Proved
}

// identityLemma: with the full range lo=0, hi=255 the rescale is the identity on 0..255.
func identityLemma() bool {
	t, _, _, _ := genericVars()
	return proveLemma("rescale.identity", [][]*Term{{rescalePre(t, IntC(0), IntC(255)), Not(Eq(buildRescale(t, IntC(0), IntC(255)), t))}}).Proved
}

// monoLemma: R(t) <= R(t+1) for every t in 0..254 (16 parallel cases on t's high nibble);
// monotonicity over the integer range 0..255 follows by transitivity.
func monoLemma() bool {
	t, lo, hi, t8 := genericVars()
	var cases [][]*Term
	for k := 0; k < 16; k++ {
		cases = append(cases, []*Term{Eq(Extract(7, 4, t8), BVC(uint64(k), 4)), rescalePre(t, lo, hi), Slt(t, IntC(255)),
			Not(Sle(buildRescale(t, lo, hi), buildRescale(Add(t, IntC(1)), lo, hi)))})
	}
	return proveLemma("rescale.monotone", cases).Proved
}

// Replace substitutes whole sub-terms (top-down: a replaced node is not descended into).
func Replace(t *Term, m map[*Term]*Term, memo map[*Term]*Term) *Term {
	if r, ok := m[t]; ok {
		return r
	}
	if r, ok := memo[t]; ok {
		return r
	}
	if len(t.Args) == 0 {
		return t
	}
	as := make([]*Term, len(t.Args))
	changed := false
	for i, a := range t.Args {
		as[i] = Replace(a, m, memo)
		if as[i] != a {
			changed = true
		}
	}
	r := t
	if changed {
		r = Rebuild(t, as)
	}
	memo[t] = r
	return r
}

type rescaleInst struct {
	m, t, lo, hi, v *Term
}

// AbstractKernels rewrites the assertions, replacing recognised rescale kernels by fresh integers
// constrained by proved lemmas. needMono asks for the monotonicity lemma (two or more instances).
// It returns the new assertions and the number of instances abstracted (0 = unchanged).
func AbstractKernels(asserts []*Term, mono bool) ([]*Term, int) {
	if LemmasOff {
		return asserts, 0
	}
	var insts []*rescaleInst
	seen := map[*Term]bool{}
	var walk func(*Term)
	walk = func(x *Term) {
		if seen[x] {
			return
		}
		seen[x] = true
		if t, lo, hi, ok := matchRescale(x); ok {
			insts = append(insts, &rescaleInst{m: x, t: t, lo: lo, hi: hi})
		}
		for _, a := range x.Args {
			walk(a)
		}
	}
	for _, a := range asserts {
		walk(a)
	}
	if len(insts) == 0 {
		return asserts, 0
	}
	if !rangeLemma() || !endsLemma() {
		return asserts, 0
	}
	ident := identityLemma()
	if os.Getenv("FGSYM_DEBUG") == "2" {
		for _, in := range insts {
			fmt.Fprintf(os.Stderr, "kernel %d: t=%s\n   lo=%s\n   hi=%s\n", in.m.ID, in.t, in.lo, in.hi)
		}
	}
	repl := map[*Term]*Term{}
	for _, in := range insts {
		in.v = Var(fmt.Sprintf("rescale!%d", in.m.ID), BV64)
		repl[in.m] = in.v
	}
	memo := map[*Term]*Term{}
	var facts []*Term
	for _, in := range insts {
		pre := rescalePre(in.t, in.lo, in.hi)
		facts = append(facts,
			Implies(pre, And(Sle(in.lo, in.v), Sle(in.v, in.hi))),
			Implies(And(pre, Eq(in.t, IntC(0))), Eq(in.v, in.lo)),
			Implies(And(pre, Eq(in.t, IntC(255))), Eq(in.v, in.hi)))
		if ident {
			facts = append(facts, Implies(And(pre, Eq(in.lo, IntC(0)), Eq(in.hi, IntC(255))), Eq(in.v, in.t)))
		}
	}
	// monotonicity between any two instances whose limits are (semantically) equal
	if mono && len(insts) > 1 && monoLemma() {
		for i := range insts {
			for j := range insts {
				if i == j {
					continue
				}
				a, b := insts[i], insts[j]
				pre := And(rescalePre(a.t, a.lo, a.hi), rescalePre(b.t, b.lo, b.hi), Eq(a.lo, b.lo), Eq(a.hi, b.hi))
				facts = append(facts, Implies(And(pre, Sle(a.t, b.t)), Sle(a.v, b.v)))
			}
		}
	}
	out := make([]*Term, 0, len(asserts)+len(facts))
	for _, a := range asserts {
		out = append(out, Replace(a, repl, memo))
	}
	for _, f := range facts {
		out = append(out, Replace(f, repl, memo))
	}
	return out, len(insts)
}

// KernelInputVars lists the variables occurring in the arguments of recognised kernels.
func KernelInputVars(asserts []*Term) []*Term {
	seen := map[*Term]bool{}
	var args []*Term
	var walk func(*Term)
	walk = func(x *Term) {
		if seen[x] {
			return
		}
		seen[x] = true
		if t, lo, hi, ok := matchRescale(x); ok {
			args = append(args, t, lo, hi)
		}
		for _, a := range x.Args {
			walk(a)
		}
	}
	for _, a := range asserts {
		walk(a)
	}
	return Vars(args...)
}
