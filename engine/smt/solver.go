package smt

import (
	"bytes"
	"context"
	"fmt"
	"math"
	"os"
	"os/exec"
	"path/filepath"
	"strconv"
	"strings"
	"sync"
	"sync/atomic"
	"syscall"
	"time"
)

type Result int

const (
	Unsat Result = iota
	Sat
	Unknown
	Error
)

func (r Result) String() string {
	return [...]string{"unsat", "sat", "unknown", "error"}[r]
}

type Answer struct {
	Res     Result
	Model   map[string]*Term // values of requested terms keyed by var name (vars only)
	Values  []*Term          // values for getVals in order (nil when not sat)
	Solver  string
	Seconds float64
	Raw     string
	File    string
}

type Backend string

const (
	Z3Old Backend = "z3"
	Z3New Backend = "z3-new"
	CVC5  Backend = "cvc5"
)

var (
	WorkDir   = "/tmp/fgsym-work"
	KeepFiles = false
	qCounter  int64

	statMu      sync.Mutex
	StatQueries int
	StatByRes   = map[Result]int{}
	StatSeconds float64
	StatSolvers = map[string]bool{}
)

func versionOf(b Backend) string {
	switch b {
	case Z3Old:
		return "z3 4.8.12"
	case Z3New:
		return "z3 5.1.0"
	}
	return "cvc5 1.0.3"
}

// Solve runs one query in a fresh solver process with a wall-clock cap.
func Solve(b Backend, asserts []*Term, getVals []*Term, timeout time.Duration) Answer {
	body := Script(asserts, getVals)
	var hdr string
	switch b {
	case CVC5:
		hdr = "(set-option :produce-models true)\n(set-logic ALL)\n"
	default:
		hdr = "(set-option :produce-models true)\n"
	}
	n := atomic.AddInt64(&qCounter, 1)
	_ = os.MkdirAll(WorkDir, 0o755)
	file := filepath.Join(WorkDir, fmt.Sprintf("q%06d.smt2", n))
	if err := os.WriteFile(file, []byte(hdr+body), 0o644); err != nil {
		return Answer{Res: Error, Raw: err.Error()}
	}
	var cmd *exec.Cmd
	ctx, cancel := context.WithTimeout(context.Background(), timeout+2*time.Second)
	defer cancel()
	switch b {
	case CVC5:
		cmd = exec.CommandContext(ctx, "cvc5", "--lang=smt2", fmt.Sprintf("--tlimit=%d", timeout.Milliseconds()), file)
	default:
		secs := int(timeout.Seconds())
		if secs < 1 {
			secs = 1
		}
		cmd = exec.CommandContext(ctx, string(b), fmt.Sprintf("-T:%d", secs), file)
	}
	cmd.SysProcAttr = &syscall.SysProcAttr{Setpgid: true}
	cmd.Cancel = func() error { return syscall.Kill(-cmd.Process.Pid, syscall.SIGKILL) }
	var out bytes.Buffer
	cmd.Stdout = &out
	cmd.Stderr = &out
	t0 := time.Now()
	_ = cmd.Run()
	el := time.Since(t0).Seconds()
	raw := out.String()
	ans := Answer{Solver: versionOf(b), Seconds: el, Raw: raw, File: file}
	verdict, vIdx := "", -1
	off := 0
	for _, ln := range strings.SplitAfter(raw, "\n") {
		t := strings.TrimSpace(ln)
		if t == "sat" || t == "unsat" || t == "unknown" {
			verdict, vIdx = t, off
			break
		}
		off += len(ln)
	}
	errIdx := strings.Index(raw, "(error")
	switch {
	case vIdx < 0:
		if errIdx >= 0 {
			ans.Res = Error
		} else {
			ans.Res = Unknown // timeout / killed
		}
	case errIdx >= 0 && errIdx < vIdx:
		ans.Res = Error
	case verdict == "unsat":
		ans.Res = Unsat // an error from get-value after unsat is expected
	case verdict == "unknown":
		ans.Res = Unknown
	default:
		if errIdx >= 0 {
			ans.Res = Error
			break
		}
		ans.Res = Sat
		if len(getVals) > 0 {
			vals, err := parseValues(raw[vIdx+3:], getVals)
			if err != nil {
				ans.Res = Error
				ans.Raw += "\nparse: " + err.Error()
			} else {
				ans.Values = vals
				ans.Model = map[string]*Term{}
				for i, g := range getVals {
					if g.Op == OpVar {
						ans.Model[g.Name] = vals[i]
					}
				}
			}
		}
	}
	if !KeepFiles && ans.Res != Error {
		_ = os.Remove(file)
	}
	statMu.Lock()
	StatQueries++
	StatByRes[ans.Res]++
	StatSeconds += el
	StatSolvers[ans.Solver] = true
	statMu.Unlock()
	return ans
}

// ---------- s-expressions ----------

type sx struct {
	atom string
	list []*sx
	isL  bool
}

func parseSx(s string) ([]*sx, error) {
	pos := 0
	var parse func() (*sx, error)
	skip := func() {
		for pos < len(s) && (s[pos] == ' ' || s[pos] == '\n' || s[pos] == '\t' || s[pos] == '\r') {
			pos++
		}
	}
	parse = func() (*sx, error) {
		skip()
		if pos >= len(s) {
			return nil, fmt.Errorf("eof")
		}
		if s[pos] == '(' {
			pos++
			n := &sx{isL: true}
			for {
				skip()
				if pos >= len(s) {
					return nil, fmt.Errorf("unbalanced")
				}
				if s[pos] == ')' {
					pos++
					return n, nil
				}
				c, err := parse()
				if err != nil {
					return nil, err
				}
				n.list = append(n.list, c)
			}
		}
		if s[pos] == '|' {
			e := strings.IndexByte(s[pos+1:], '|')
			if e < 0 {
				return nil, fmt.Errorf("bad quoted symbol")
			}
			a := s[pos+1 : pos+1+e]
			pos += e + 2
			return &sx{atom: a}, nil
		}
		st := pos
		for pos < len(s) && !strings.ContainsRune(" \n\t\r()", rune(s[pos])) {
			pos++
		}
		return &sx{atom: s[st:pos]}, nil
	}
	var out []*sx
	for {
		skip()
		if pos >= len(s) {
			return out, nil
		}
		n, err := parse()
		if err != nil {
			return nil, err
		}
		out = append(out, n)
	}
}

func parseBits(a string) (uint64, int, error) {
	if strings.HasPrefix(a, "#x") {
		v, err := strconv.ParseUint(a[2:], 16, 64)
		return v, 4 * (len(a) - 2), err
	}
	if strings.HasPrefix(a, "#b") {
		v, err := strconv.ParseUint(a[2:], 2, 64)
		return v, len(a) - 2, err
	}
	return 0, 0, fmt.Errorf("not bits: %s", a)
}

func decodeValue(n *sx, s Sort) (*Term, error) {
	switch s.K {
	case KBool:
		if n.atom == "true" {
			return True, nil
		}
		if n.atom == "false" {
			return False, nil
		}
	case KBV:
		if !n.isL {
			v, _, err := parseBits(n.atom)
			if err != nil {
				return nil, err
			}
			return BVC(v, s.W), nil
		}
		// (_ bv123 64)
		if len(n.list) == 3 && n.list[0].atom == "_" && strings.HasPrefix(n.list[1].atom, "bv") {
			v, err := strconv.ParseUint(n.list[1].atom[2:], 10, 64)
			if err != nil {
				return nil, err
			}
			return BVC(v, s.W), nil
		}
	case KFP:
		if n.isL && len(n.list) == 4 && n.list[0].atom == "fp" {
			sg, _, e1 := parseBits(n.list[1].atom)
			ex, _, e2 := parseBits(n.list[2].atom)
			mn, _, e3 := parseBits(n.list[3].atom)
			if e1 != nil || e2 != nil || e3 != nil {
				return nil, fmt.Errorf("bad fp literal")
			}
			if s.W == 32 {
				b := uint32(sg)<<31 | uint32(ex)<<23 | uint32(mn)
				return FP32C(math.Float32frombits(b)), nil
			}
			b := sg<<63 | ex<<52 | mn
			return FPC(math.Float64frombits(b)), nil
		}
		if n.isL && len(n.list) == 4 && n.list[0].atom == "_" {
			var f float64
			switch n.list[1].atom {
			case "NaN":
				f = math.NaN()
			case "+oo":
				f = math.Inf(1)
			case "-oo":
				f = math.Inf(-1)
			case "+zero":
				f = 0
			case "-zero":
				f = math.Copysign(0, -1)
			default:
				return nil, fmt.Errorf("bad fp special %s", n.list[1].atom)
			}
			return FPConst(f, s), nil
		}
	}
	return nil, fmt.Errorf("cannot decode value of sort %v", s)
}

func parseValues(raw string, getVals []*Term) ([]*Term, error) {
	nodes, err := parseSx(raw)
	if err != nil {
		return nil, err
	}
	// get-value output: one list of pairs
	var pairs []*sx
	for _, n := range nodes {
		if n.isL {
			pairs = append(pairs, n.list...)
		}
	}
	if len(pairs) < len(getVals) {
		return nil, fmt.Errorf("expected %d values, got %d", len(getVals), len(pairs))
	}
	out := make([]*Term, len(getVals))
	for i, g := range getVals {
		p := pairs[i]
		if !p.isL || len(p.list) != 2 {
			return nil, fmt.Errorf("bad pair")
		}
		v, err := decodeValue(p.list[1], g.Sort)
		if err != nil {
			return nil, err
		}
		out[i] = v
	}
	return out, nil
}
