// Package smt: hash-consed SMT terms with constant folding, an SMT-LIB2 printer,
// a concrete evaluator and solver drivers.
package smt

import (
	"fmt"
	"math"
	"strings"
	"sync"
)

type SortKind int

const (
	KBool SortKind = iota
	KBV
	KFP
)

type Sort struct {
	K SortKind
	W int // BV width; FP: 64 or 32
}

var (
	Bool  = Sort{KBool, 0}
	BV64  = Sort{KBV, 64}
	BV32  = Sort{KBV, 32}
	BV8   = Sort{KBV, 8}
	FP64  = Sort{KFP, 64}
	FP32  = Sort{KFP, 32}
	BV16  = Sort{KBV, 16}
	BVOne = Sort{KBV, 1}
)

func BV(w int) Sort { return Sort{KBV, w} }

func (s Sort) String() string {
	switch s.K {
	case KBool:
		return "Bool"
	case KBV:
		return fmt.Sprintf("(_ BitVec %d)", s.W)
	case KFP:
		if s.W == 32 {
			return "(_ FloatingPoint 8 24)"
		}
		return "(_ FloatingPoint 11 53)"
	}
	return "?"
}

type Op int

const (
	OpVar Op = iota
	OpConst
	OpNot
	OpAnd
	OpOr
	OpIte
	OpEq
	// BV
	OpBVAdd
	OpBVSub
	OpBVMul
	OpBVSDiv
	OpBVUDiv
	OpBVSRem
	OpBVURem
	OpBVAnd
	OpBVOr
	OpBVXor
	OpBVNot
	OpBVNeg
	OpBVShl
	OpBVLShr
	OpBVAShr
	OpBVSlt
	OpBVSle
	OpBVUlt
	OpBVUle
	OpExtract // P0=hi P1=lo
	OpZeroExt // P0 = extra bits
	OpSignExt
	// FP
	OpFPAdd
	OpFPSub
	OpFPMul
	OpFPDiv
	OpFPNeg
	OpFPAbs
	OpFPLt
	OpFPLe
	OpFPEq
	OpFPIsNaN
	OpFPIsInf
	OpFPIsZero
	OpFPIsNeg
	OpFPRound // P0 = rounding mode: 0 RNE 1 RNA 2 RTP 3 RTN 4 RTZ
	OpFPToSBV // result width in Sort, RTZ
	OpFPToUBV
	OpSBVToFP
	OpUBVToFP
	OpFPToFP // precision conversion RNE
)

const (
	RNE = 0
	RNA = 1
	RTP = 2
	RTN = 3
	RTZ = 4
)

type Term struct {
	ID   int
	Op   Op
	Sort Sort
	Args []*Term
	Name string  // var
	U    uint64  // BV const (masked), Bool const (0/1)
	F    float64 // FP const (float32 values stored widened)
	P0   int
	P1   int
}

var (
	internMu sync.Mutex
	intern   = map[string]*Term{}
	nextID   = 1
)

func mk(t *Term) *Term {
	var sb strings.Builder
	fmt.Fprintf(&sb, "%d|%d.%d|%d.%d|", t.Op, t.Sort.K, t.Sort.W, t.P0, t.P1)
	switch t.Op {
	case OpVar:
		sb.WriteString(t.Name)
	case OpConst:
		if t.Sort.K == KFP {
			fmt.Fprintf(&sb, "f%x", math.Float64bits(t.F))
		} else {
			fmt.Fprintf(&sb, "%x", t.U)
		}
	default:
		for _, a := range t.Args {
			fmt.Fprintf(&sb, "%d,", a.ID)
		}
	}
	key := sb.String()
	internMu.Lock()
	defer internMu.Unlock()
	if o, ok := intern[key]; ok {
		return o
	}
	t.ID = nextID
	nextID++
	intern[key] = t
	return t
}

func (t *Term) IsConst() bool { return t.Op == OpConst }
func (t *Term) IsTrue() bool  { return t.Op == OpConst && t.Sort.K == KBool && t.U == 1 }
func (t *Term) IsFalse() bool { return t.Op == OpConst && t.Sort.K == KBool && t.U == 0 }

func mask(w int) uint64 {
	if w >= 64 {
		return ^uint64(0)
	}
	return (uint64(1) << uint(w)) - 1
}

// SInt returns the signed value of a BV constant.
func (t *Term) SInt() int64 {
	w := t.Sort.W
	if w >= 64 {
		return int64(t.U)
	}
	if t.U&(uint64(1)<<uint(w-1)) != 0 {
		return int64(t.U | ^mask(w))
	}
	return int64(t.U)
}

func Var(name string, s Sort) *Term { return mk(&Term{Op: OpVar, Sort: s, Name: name}) }

var (
	True  = mk(&Term{Op: OpConst, Sort: Bool, U: 1})
	False = mk(&Term{Op: OpConst, Sort: Bool, U: 0})
)

func BoolC(b bool) *Term {
	if b {
		return True
	}
	return False
}

func BVC(v uint64, w int) *Term { return mk(&Term{Op: OpConst, Sort: BV(w), U: v & mask(w)}) }
func IntC(v int64) *Term        { return BVC(uint64(v), 64) }

func canonNaN(f float64) float64 {
	if f != f {
		return math.NaN()
	}
	return f
}

func FPC(f float64) *Term { return mk(&Term{Op: OpConst, Sort: FP64, F: canonNaN(f)}) }
func FP32C(f float32) *Term {
	return mk(&Term{Op: OpConst, Sort: FP32, F: canonNaN(float64(f))})
}
func FPConst(f float64, s Sort) *Term {
	if s.W == 32 {
		return FP32C(float32(f))
	}
	return FPC(f)
}

// ---------- boolean ----------

func Not(a *Term) *Term {
	if a.IsConst() {
		return BoolC(a.U == 0)
	}
	if a.Op == OpNot {
		return a.Args[0]
	}
	return mk(&Term{Op: OpNot, Sort: Bool, Args: []*Term{a}})
}

func And(as ...*Term) *Term {
	var out []*Term
	seen := map[int]bool{}
	for _, a := range as {
		if a.IsFalse() {
			return False
		}
		if a.IsTrue() {
			continue
		}
		if a.Op == OpAnd {
			for _, b := range a.Args {
				if !seen[b.ID] {
					seen[b.ID] = true
					out = append(out, b)
				}
			}
			continue
		}
		if !seen[a.ID] {
			seen[a.ID] = true
			out = append(out, a)
		}
	}
	for _, a := range out {
		if a.Op == OpNot && seen[a.Args[0].ID] {
			return False
		}
	}
	if len(out) == 0 {
		return True
	}
	if len(out) == 1 {
		return out[0]
	}
	return mk(&Term{Op: OpAnd, Sort: Bool, Args: out})
}

func Or(as ...*Term) *Term {
	var out []*Term
	seen := map[int]bool{}
	for _, a := range as {
		if a.IsTrue() {
			return True
		}
		if a.IsFalse() {
			continue
		}
		if a.Op == OpOr {
			for _, b := range a.Args {
				if !seen[b.ID] {
					seen[b.ID] = true
					out = append(out, b)
				}
			}
			continue
		}
		if !seen[a.ID] {
			seen[a.ID] = true
			out = append(out, a)
		}
	}
	for _, a := range out {
		if a.Op == OpNot && seen[a.Args[0].ID] {
			return True
		}
	}
	if len(out) == 0 {
		return False
	}
	if len(out) == 1 {
		return out[0]
	}
	return mk(&Term{Op: OpOr, Sort: Bool, Args: out})
}

func Implies(a, b *Term) *Term { return Or(Not(a), b) }

func Ite(c, a, b *Term) *Term {
	if c.IsTrue() {
		return a
	}
	if c.IsFalse() {
		return b
	}
	if a == b {
		return a
	}
	if a.Sort != b.Sort {
		panic(fmt.Sprintf("ite sort mismatch %v %v", a.Sort, b.Sort))
	}
	if a.Sort.K == KBool {
		if a.IsTrue() && b.IsFalse() {
			return c
		}
		if a.IsFalse() && b.IsTrue() {
			return Not(c)
		}
	}
	return mk(&Term{Op: OpIte, Sort: a.Sort, Args: []*Term{c, a, b}})
}

// Eq is SMT "=" (for FP: bit identity modulo NaN; use FPEq for Go ==).
func Eq(a, b *Term) *Term {
	if a.Sort != b.Sort {
		panic(fmt.Sprintf("eq sort mismatch %v %v", a.Sort, b.Sort))
	}
	if a == b {
		return True
	}
	if a.IsConst() && b.IsConst() {
		if a.Sort.K == KFP {
			return BoolC(math.Float64bits(a.F) == math.Float64bits(b.F))
		}
		return BoolC(a.U == b.U)
	}
	if a.Sort.K == KBool {
		if a.IsTrue() {
			return b
		}
		if b.IsTrue() {
			return a
		}
		if a.IsFalse() {
			return Not(b)
		}
		if b.IsFalse() {
			return Not(a)
		}
	}
	if a.ID > b.ID {
		a, b = b, a
	}
	return mk(&Term{Op: OpEq, Sort: Bool, Args: []*Term{a, b}})
}

// ---------- bit-vectors ----------

func bvFold(op Op, w int, x, y uint64) (uint64, bool) {
	m := mask(w)
	sx := func(v uint64) int64 {
		if w < 64 && v&(1<<uint(w-1)) != 0 {
			return int64(v | ^m)
		}
		return int64(v)
	}
	switch op {
	case OpBVAdd:
		return (x + y) & m, true
	case OpBVSub:
		return (x - y) & m, true
	case OpBVMul:
		return (x * y) & m, true
	case OpBVAnd:
		return x & y, true
	case OpBVOr:
		return x | y, true
	case OpBVXor:
		return x ^ y, true
	case OpBVUDiv:
		if y == 0 {
			return m, true
		}
		return x / y, true
	case OpBVURem:
		if y == 0 {
			return x, true
		}
		return x % y, true
	case OpBVSDiv:
		a, b := sx(x), sx(y)
		if b == 0 {
			if a >= 0 {
				return m, true
			}
			return 1, true
		}
		if b == -1 {
			return uint64(-a) & m, true
		}
		return uint64(a/b) & m, true
	case OpBVSRem:
		a, b := sx(x), sx(y)
		if b == 0 {
			return x, true
		}
		if b == -1 {
			return 0, true
		}
		return uint64(a%b) & m, true
	case OpBVShl:
		if y >= uint64(w) {
			return 0, true
		}
		return (x << y) & m, true
	case OpBVLShr:
		if y >= uint64(w) {
			return 0, true
		}
		return x >> y, true
	case OpBVAShr:
		a := sx(x)
		if y >= uint64(w) {
			if a < 0 {
				return m, true
			}
			return 0, true
		}
		return uint64(a>>y) & m, true
	}
	return 0, false
}

func BVBin(op Op, a, b *Term) *Term {
	if a.Sort != b.Sort || a.Sort.K != KBV {
		panic(fmt.Sprintf("bvbin sort mismatch op=%d %v %v", op, a.Sort, b.Sort))
	}
	if a.IsConst() && b.IsConst() {
		if v, ok := bvFold(op, a.Sort.W, a.U, b.U); ok {
			return BVC(v, a.Sort.W)
		}
	}
	switch op {
	case OpBVAdd:
		if a.IsConst() && a.U == 0 {
			return b
		}
		if b.IsConst() && b.U == 0 {
			return a
		}
	case OpBVSub:
		if b.IsConst() && b.U == 0 {
			return a
		}
		if a == b {
			return BVC(0, a.Sort.W)
		}
	case OpBVMul:
		if a.IsConst() && a.U == 1 {
			return b
		}
		if b.IsConst() && b.U == 1 {
			return a
		}
	case OpBVAnd, OpBVOr:
		if a == b {
			return a
		}
	}
	return mk(&Term{Op: op, Sort: a.Sort, Args: []*Term{a, b}})
}

func BVUn(op Op, a *Term) *Term {
	if a.IsConst() {
		switch op {
		case OpBVNot:
			return BVC(^a.U, a.Sort.W)
		case OpBVNeg:
			return BVC(-a.U, a.Sort.W)
		}
	}
	return mk(&Term{Op: op, Sort: a.Sort, Args: []*Term{a}})
}

func BVCmp(op Op, a, b *Term) *Term {
	if a.Sort != b.Sort || a.Sort.K != KBV {
		panic(fmt.Sprintf("bvcmp sort mismatch %v %v", a.Sort, b.Sort))
	}
	if a.IsConst() && b.IsConst() {
		switch op {
		case OpBVSlt:
			return BoolC(a.SInt() < b.SInt())
		case OpBVSle:
			return BoolC(a.SInt() <= b.SInt())
		case OpBVUlt:
			return BoolC(a.U < b.U)
		case OpBVUle:
			return BoolC(a.U <= b.U)
		}
	}
	if a == b {
		return BoolC(op == OpBVSle || op == OpBVUle)
	}
	return mk(&Term{Op: op, Sort: Bool, Args: []*Term{a, b}})
}

func Extract(hi, lo int, a *Term) *Term {
	w := hi - lo + 1
	if lo == 0 && w == a.Sort.W {
		return a
	}
	if a.IsConst() {
		return BVC(a.U>>uint(lo), w)
	}
	return mk(&Term{Op: OpExtract, Sort: BV(w), Args: []*Term{a}, P0: hi, P1: lo})
}

func ZeroExt(n int, a *Term) *Term {
	if n == 0 {
		return a
	}
	if a.IsConst() {
		return BVC(a.U, a.Sort.W+n)
	}
	return mk(&Term{Op: OpZeroExt, Sort: BV(a.Sort.W + n), Args: []*Term{a}, P0: n})
}

func SignExt(n int, a *Term) *Term {
	if n == 0 {
		return a
	}
	if a.IsConst() {
		return BVC(uint64(a.SInt()), a.Sort.W+n)
	}
	return mk(&Term{Op: OpSignExt, Sort: BV(a.Sort.W + n), Args: []*Term{a}, P0: n})
}

// convenience (64-bit signed ints)
func Add(a, b *Term) *Term { return BVBin(OpBVAdd, a, b) }
func Sub(a, b *Term) *Term { return BVBin(OpBVSub, a, b) }
func Slt(a, b *Term) *Term { return BVCmp(OpBVSlt, a, b) }
func Sle(a, b *Term) *Term { return BVCmp(OpBVSle, a, b) }

// ---------- floating point ----------

func f32(s Sort, f float64) float64 {
	if s.W == 32 {
		return float64(float32(f))
	}
	return f
}

func FPBin(op Op, a, b *Term) *Term {
	if a.Sort != b.Sort || a.Sort.K != KFP {
		panic(fmt.Sprintf("fpbin sort mismatch %v %v", a.Sort, b.Sort))
	}
	if a.IsConst() && b.IsConst() {
		var r float64
		if a.Sort.W == 32 {
			x, y := float32(a.F), float32(b.F)
			var r32 float32
			switch op {
			case OpFPAdd:
				r32 = x + y
			case OpFPSub:
				r32 = x - y
			case OpFPMul:
				r32 = x * y
			case OpFPDiv:
				r32 = x / y
			}
			r = float64(r32)
		} else {
			switch op {
			case OpFPAdd:
				r = a.F + b.F
			case OpFPSub:
				r = a.F - b.F
			case OpFPMul:
				r = a.F * b.F
			case OpFPDiv:
				r = a.F / b.F
			}
		}
		return FPConst(r, a.Sort)
	}
	return mk(&Term{Op: op, Sort: a.Sort, Args: []*Term{a, b}})
}

func FPUn(op Op, a *Term) *Term {
	if a.IsConst() {
		switch op {
		case OpFPNeg:
			return FPConst(-a.F, a.Sort)
		case OpFPAbs:
			return FPConst(math.Abs(a.F), a.Sort)
		}
	}
	return mk(&Term{Op: op, Sort: a.Sort, Args: []*Term{a}})
}

func FPCmp(op Op, a, b *Term) *Term {
	if a.Sort != b.Sort || a.Sort.K != KFP {
		panic(fmt.Sprintf("fpcmp sort mismatch %v %v", a.Sort, b.Sort))
	}
	if a.IsConst() && b.IsConst() {
		switch op {
		case OpFPLt:
			return BoolC(a.F < b.F)
		case OpFPLe:
			return BoolC(a.F <= b.F)
		case OpFPEq:
			return BoolC(a.F == b.F)
		}
	}
	return mk(&Term{Op: op, Sort: Bool, Args: []*Term{a, b}})
}

func FPPred(op Op, a *Term) *Term {
	if a.IsConst() {
		switch op {
		case OpFPIsNaN:
			return BoolC(a.F != a.F)
		case OpFPIsInf:
			return BoolC(math.IsInf(a.F, 0))
		case OpFPIsZero:
			return BoolC(a.F == 0)
		case OpFPIsNeg:
			return BoolC(a.F == a.F && math.Signbit(a.F))
		}
	}
	return mk(&Term{Op: op, Sort: Bool, Args: []*Term{a}})
}

func roundConst(f float64, rm int) float64 {
	switch rm {
	case RNE:
		return math.RoundToEven(f)
	case RNA:
		return math.Round(f)
	case RTP:
		return math.Ceil(f)
	case RTN:
		return math.Floor(f)
	case RTZ:
		return math.Trunc(f)
	}
	panic("rm")
}

func FPRound(rm int, a *Term) *Term {
	if a.IsConst() {
		return FPConst(roundConst(a.F, rm), a.Sort)
	}
	return mk(&Term{Op: OpFPRound, Sort: a.Sort, Args: []*Term{a}, P0: rm})
}

// FPToSBVRaw is fp.to_sbv RTZ; unspecified when out of range (callers guard).
func FPToSBVRaw(w int, a *Term) *Term {
	if a.IsConst() {
		f := a.F
		if f == f && f >= -9.223372036854775808e18 && f < 9.223372036854775808e18 {
			return BVC(uint64(int64(f)), w)
		}
	}
	return mk(&Term{Op: OpFPToSBV, Sort: BV(w), Args: []*Term{a}})
}

func FPToUBVRaw(w int, a *Term) *Term {
	if a.IsConst() {
		f := a.F
		if f == f && f >= 0 && f < 1.8446744073709552e19 {
			return BVC(uint64(f), w)
		}
	}
	return mk(&Term{Op: OpFPToUBV, Sort: BV(w), Args: []*Term{a}})
}

func SBVToFP(a *Term, s Sort) *Term {
	if a.IsConst() {
		if s.W == 32 {
			return FP32C(float32(a.SInt()))
		}
		return FPC(float64(a.SInt()))
	}
	return mk(&Term{Op: OpSBVToFP, Sort: s, Args: []*Term{a}})
}

func UBVToFP(a *Term, s Sort) *Term {
	if a.IsConst() {
		if s.W == 32 {
			return FP32C(float32(a.U))
		}
		return FPC(float64(a.U))
	}
	return mk(&Term{Op: OpUBVToFP, Sort: s, Args: []*Term{a}})
}

func FPToFP(a *Term, s Sort) *Term {
	if a.Sort == s {
		return a
	}
	if a.IsConst() {
		return FPConst(a.F, s)
	}
	return mk(&Term{Op: OpFPToFP, Sort: s, Args: []*Term{a}})
}

// HasFPArith reports whether the term contains FP mul/div/add/sub (expensive for solvers).
func HasFP(t *Term) bool {
	seen := map[int]bool{}
	var rec func(*Term) bool
	rec = func(t *Term) bool {
		if seen[t.ID] {
			return false
		}
		seen[t.ID] = true
		if t.Sort.K == KFP {
			return true
		}
		for _, a := range t.Args {
			if rec(a) {
				return true
			}
		}
		return false
	}
	return rec(t)
}

// Vars collects the variables of the given terms.
func Vars(ts ...*Term) []*Term {
	seen := map[int]bool{}
	var out []*Term
	var rec func(*Term)
	rec = func(t *Term) {
		if seen[t.ID] {
			return
		}
		seen[t.ID] = true
		if t.Op == OpVar {
			out = append(out, t)
			return
		}
		for _, a := range t.Args {
			rec(a)
		}
	}
	for _, t := range ts {
		rec(t)
	}
	return out
}

// Size is the DAG size.
func Size(ts ...*Term) int {
	seen := map[int]bool{}
	var rec func(*Term)
	rec = func(t *Term) {
		if seen[t.ID] {
			return
		}
		seen[t.ID] = true
		for _, a := range t.Args {
			rec(a)
		}
	}
	for _, t := range ts {
		rec(t)
	}
	return len(seen)
}
