package smt

import (
	"testing"
	"time"
)

// the simplified query must be equisatisfiable AND every rewritten sub-term equal to the original
// under the bounds; checked by the solver on the shapes the controller produces
func TestSimplifyIntFloatEquivalence(t *testing.T) {
	WorkDir = t.TempDir()
	v := Var("v", BV64)
	cur := Var("cur", BV64)
	m := Var("m", BV64)
	bounds := []*Term{Sle(IntC(-1000), v), Sle(v, IntC(1000)), Sle(IntC(0), cur), Sle(cur, IntC(255)), Sle(IntC(1), m), Sle(m, IntC(255))}
	fv := SBVToFP(v, FP64)
	coerce := func(x, lo, hi *Term) *Term {
		return Ite(FPCmp(OpFPLt, hi, x), hi, Ite(FPCmp(OpFPLt, x, lo), lo, x))
	}
	// direct loop with limit: err := float(v-cur); clamp to +-m; step = float(cur)+clamped; coerce 0..255; round; int
	errT := SBVToFP(BVBin(OpBVSub, v, cur), FP64)
	fm := SBVToFP(m, FP64)
	clamped := coerce(errT, FPUn(OpFPNeg, fm), fm)
	step := FPBin(OpFPAdd, SBVToFP(cur, FP64), clamped)
	res := GoFloatToInt(FPRound(RNA, coerce(step, FPC(0), FPC(255))), 64)
	res2 := GoFloatToInt(FPRound(RNA, coerce(fv, FPC(0), FPC(255))), 64)
	out := Var("out", BV64)
	for i, orig := range []*Term{res, res2} {
		q := append(append([]*Term(nil), bounds...), Eq(out, orig))
		sq := SimplifyIntFloat(q)
		simp := sq[len(sq)-1]
		if HasFP(simp) {
			t.Errorf("case %d: floating point left after simplification: %s", i, simp)
		}
		// equivalence: no assignment satisfies the bounds and distinguishes the two
		a := Solve(CVC5, append(append([]*Term(nil), bounds...), Not(Eq(Eq(out, orig), simp))), nil, 120*time.Second)
		if a.Res != Unsat {
			t.Errorf("case %d: simplification not equivalent: %v", i, a.Res)
		}
	}
}
