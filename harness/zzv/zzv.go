// Package zzv is the harness API of the /verif machinery. It exists only in an overlay
// (never in /repo). The symbolic engine intercepts the primitives below by name and never
// interprets their bodies; compiled natively (replay, translator validation) the bodies read
// the solver's assignment from the JSON file named by $ZZV_VALUES.
package zzv

import (
	"context"
	"encoding/json"
	"fmt"
	"math"
	"os"
	"path/filepath"
	"strconv"
	"strings"
	"sync"
	"syscall"
	"time"
)

type table struct {
	Values  map[string]string `json:"values"`  // name -> decimal int / "f:<hex bits>" / "true"/"false"
	Choices map[string]int    `json:"choices"` // name -> branch
}

var (
	mu      sync.Mutex
	tab     *table
	counts  = map[string]int{}
	Records []string
	Fails   []string
	tmpRoot string
)

type assumeFailed struct{}

func load() {
	if tab != nil {
		return
	}
	tab = &table{Values: map[string]string{}, Choices: map[string]int{}}
	if p := os.Getenv("ZZV_VALUES"); p != "" {
		b, err := os.ReadFile(p)
		if err != nil {
			panic(err)
		}
		if err := json.Unmarshal(b, tab); err != nil {
			panic(err)
		}
	}
}

func uniq(name string) string {
	c := counts[name]
	counts[name] = c + 1
	if c == 0 {
		return name
	}
	return fmt.Sprintf("%s#%d", name, c)
}

func raw(name string) (string, bool) {
	mu.Lock()
	defer mu.Unlock()
	load()
	v, ok := tab.Values[uniq(name)]
	return v, ok
}

// ---- primitives (intercepted by the engine) ----

func Symbolic() bool { return false }

func Int64(name string) int64 {
	v, ok := raw(name)
	if !ok {
		return 0
	}
	i, err := strconv.ParseInt(v, 10, 64)
	if err != nil {
		panic("zzv: bad int for " + name + ": " + v)
	}
	return i
}

func Int(name string) int { return int(Int64(name)) }

func Uint32(name string) uint32 { return uint32(Int64(name)) }

func Bool(name string) bool {
	v, ok := raw(name)
	return ok && v == "true"
}

func Float64(name string) float64 {
	v, ok := raw(name)
	if !ok {
		return 0
	}
	if strings.HasPrefix(v, "f:") {
		b, err := strconv.ParseUint(v[2:], 16, 64)
		if err != nil {
			panic(err)
		}
		return math.Float64frombits(b)
	}
	f, err := strconv.ParseFloat(v, 64)
	if err != nil {
		panic(err)
	}
	return f
}

// Thorough reports whether the thorough tier is running (VERIF_TIER=thorough).
func Thorough() bool { return os.Getenv("VERIF_TIER") == "thorough" }

// Non-forking boolean / integer helpers (a plain && or || in a harness forks the symbolic path).
func And(a, b bool) bool     { return a && b }
func Or(a, b bool) bool      { return a || b }
func Not(a bool) bool        { return !a }
func Implies(a, b bool) bool { return !a || b }
func IteInt(c bool, a, b int) int {
	if c {
		return a
	}
	return b
}
func IteF(c bool, a, b float64) float64 {
	if c {
		return a
	}
	return b
}
func AbsInt(a int) int {
	if a < 0 {
		return -a
	}
	return a
}
func IsNaN(f float64) bool    { return f != f }
func IsFinite(f float64) bool { return !math.IsNaN(f) && !math.IsInf(f, 0) }

// SetMerge switches the engine's path merging at call returns on or off (no effect natively).
func SetMerge(on bool) {}

// Choice is a concrete case split: the engine forks into k branches.
func Choice(name string, k int) int {
	mu.Lock()
	defer mu.Unlock()
	load()
	return tab.Choices[uniq("choice:"+name)]
}

// Id returns a symbolic identifier string: "" or one of k distinct non-empty names.
func Id(name string, k int) string {
	i := Int64(name)
	if i <= 0 {
		return ""
	}
	return IdName(int(i))
}

// IdName is the concrete name of candidate i (i >= 1) of the identifier family.
func IdName(i int) string {
	if i == 4 {
		return "ZZID1" // the first identifier in another letter case: identifiers are compared exactly
	}
	return fmt.Sprintf("zzid%d", i)
}

func Assume(c bool) {
	if !c {
		panic(assumeFailed{})
	}
}

func Assert(c bool, label string) {
	if !c {
		mu.Lock()
		Fails = append(Fails, label)
		mu.Unlock()
		fmt.Printf("ZZV-ASSERT-FAIL %s\n", label)
	}
}

func Record(tag string, v int) {
	mu.Lock()
	Records = append(Records, fmt.Sprintf("%s=%d", tag, v))
	mu.Unlock()
	fmt.Printf("ZZV-RECORD %s=%d\n", tag, v)
}

func RecordF(tag string, v float64) {
	fmt.Printf("ZZV-RECORD %s=f:%016x\n", tag, math.Float64bits(v))
}

func RecordB(tag string, v bool) {
	i := 0
	if v {
		i = 1
	}
	fmt.Printf("ZZV-RECORD %s=%d\n", tag, i)
}

// ---- device model (sysfs-like files) ----

// TempDir returns a directory for fake device files.
func TempDir(name string) string {
	mu.Lock()
	defer mu.Unlock()
	if tmpRoot == "" {
		d, err := os.MkdirTemp("", "zzv")
		if err != nil {
			panic(err)
		}
		tmpRoot = d
	}
	p := filepath.Join(tmpRoot, name)
	_ = os.MkdirAll(p, 0o755)
	return p
}

// Cleanup removes everything TempDir created.
func Cleanup() {
	if tmpRoot != "" {
		_ = os.RemoveAll(tmpRoot)
		tmpRoot = ""
	}
}

// FilePut makes the file exist (or not) with the given integer content.
func FilePut(path string, exists bool, value int) {
	if !exists {
		_ = os.Remove(path)
		return
	}
	if err := os.WriteFile(path, []byte(strconv.Itoa(value)), 0o644); err != nil {
		panic(err)
	}
}

// FilePutFloat makes the file hold a float text (e.g. "NaN", "+Inf", "12.5"): an integer read of
// it fails to parse, strconv.ParseFloat of it yields exactly f.
func FilePutFloat(path string, f float64) {
	if err := os.WriteFile(path, []byte(strconv.FormatFloat(f, 'g', -1, 64)), 0o644); err != nil {
		panic(err)
	}
}

// FileState sets existence, content kind (number or garbage) and value in one call; all three may
// be symbolic (no case split in the harness: the code under test forks when it looks at the file).
func FileState(path string, exists bool, garbage bool, value int) {
	if !exists {
		_ = os.Remove(path)
		return
	}
	if garbage {
		FileGarbage(path)
		return
	}
	FilePut(path, true, value)
}

// FileGarbage makes the file exist with non-numeric content.
func FileGarbage(path string) {
	if err := os.WriteFile(path, []byte("garbage"), 0o644); err != nil {
		panic(err)
	}
}

// FileText makes the file hold exactly this text (whitespace, units, several lines ...).
func FileText(path string, text string) {
	if err := os.WriteFile(path, []byte(text), 0o644); err != nil {
		panic(err)
	}
}

// RealFileIO: from here on the integer read helper of internal/util runs its real body (in the
// symbolic run on top of an os.ReadFile model that serves the FileText contents; natively it
// always does).
func RealFileIO() {}

func FileExists(path string) bool {
	_, err := os.Stat(path)
	return err == nil
}

// FilePeek reads the file content as the device sees it (no fault injection); -1 if unreadable.
func FilePeek(path string) int {
	b, err := os.ReadFile(path)
	if err != nil {
		return -1
	}
	i, err := strconv.Atoi(strings.TrimSpace(string(b)))
	if err != nil {
		return -1
	}
	return i
}

// Fault modes for FileFault.
const (
	WriteOK      = 0
	WriteError   = 1
	WriteIgnored = 2
)

type fault struct {
	readErr   bool
	writeMode int
}

var faults = map[string]fault{}

// FileFault sets sticky fault behaviour for a path: reads fail, writes fail or are silently dropped.
func FileFault(path string, readErr bool, writeMode int) {
	mu.Lock()
	faults[path] = fault{readErr, writeMode}
	mu.Unlock()
}

// HookRead / HookWrite are consulted by the overlay copy of internal/util/file.go in native runs.
func HookRead(path string) (fail bool) {
	mu.Lock()
	defer mu.Unlock()
	return faults[path].readErr
}

func HookWrite(path string) (mode int) {
	mu.Lock()
	defer mu.Unlock()
	writes[path]++
	if m := watches[path]; m != nil {
		if m.TryLock() {
			m.Unlock()
			unlocked[path]++
		}
	}
	return faults[path].writeMode
}

var writes = map[string]int{}
var watches = map[string]*sync.Mutex{}
var unlocked = map[string]int{}

// WatchWrites classifies every later write to path (through the integer file helpers) by whether
// m is locked at that moment; UnlockedWrites is the number of writes made while it was free.
func WatchWrites(path string, m *sync.Mutex) {
	mu.Lock()
	watches[path] = m
	mu.Unlock()
}

func UnlockedWrites(path string) int {
	mu.Lock()
	defer mu.Unlock()
	return unlocked[path]
}

// FileWrites is the number of write calls (successful or not) made on path through the integer
// file helpers so far.
func FileWrites(path string) int {
	mu.Lock()
	defer mu.Unlock()
	return writes[path]
}

// ---- virtual clock ----

var nowNs int64

// ClockStep advances the virtual clock by sec seconds + ms milliseconds (0 <= ms < 1000) and
// returns the value time.Duration.Seconds() yields for that step.
func ClockStep(sec, ms int) float64 {
	clockAdvance(sec, ms)
	return float64(sec) + float64(ms*1000000)/1e9
}

func clockAdvance(sec, ms int) {
	mu.Lock()
	nowNs += int64(sec)*1000000000 + int64(ms)*1000000
	mu.Unlock()
}

// Now is the virtual clock as a time.Time (native runs only; the engine intercepts time.Now).
func Now() time.Time { return time.Unix(1700000000, 0).Add(time.Duration(NowNs())) }

var havoc = map[string]bool{}

// EnableHavoc makes the named leaf return an arbitrary value (a fresh Float64 of that name) on
// every call from now on: the engine intercepts the leaf, native runs use the rewritten leaf.
func EnableHavoc(name string) {
	mu.Lock()
	havoc[name] = true
	mu.Unlock()
}

// Havoc is called by rewritten leaves in native runs.
func Havoc(name string) (float64, bool) {
	mu.Lock()
	on := havoc[name]
	mu.Unlock()
	if !on {
		return 0, false
	}
	return Float64(name), true
}

// NowNs is the virtual clock reading used by overlay copies of clock-reading files.
func NowNs() int64 {
	mu.Lock()
	defer mu.Unlock()
	return nowNs
}

// RunHarness executes fn, absorbing a failed Assume; it reports what happened on stdout.
func RunHarness(fn func()) (assumeOK bool, panicked interface{}) {
	assumeOK = true
	defer func() {
		if r := recover(); r != nil {
			if _, ok := r.(assumeFailed); ok {
				assumeOK = false
				fmt.Println("ZZV-ASSUME-FAIL")
				return
			}
			panicked = r
			fmt.Printf("ZZV-PANIC %v\n", r)
		}
	}()
	fn()
	return
}

// ---- file metadata and external commands (C18 / C19) ----

// FileInfo is the os.FileInfo the engine's os.Stat model returns (plain Go, interpreted).
type FileInfo struct {
	M  os.FileMode
	St *syscall.Stat_t
}

func (f FileInfo) Name() string       { return "zz" }
func (f FileInfo) Size() int64        { return 0 }
func (f FileInfo) Mode() os.FileMode  { return f.M }
func (f FileInfo) ModTime() time.Time { return time.Time{} }
func (f FileInfo) IsDir() bool        { return false }
func (f FileInfo) Sys() any           { return f.St }

// Ctx is the context the engine's context.WithTimeout model returns.
type Ctx struct{ E error }

func (c *Ctx) Deadline() (time.Time, bool) { return time.Time{}, false }
func (c *Ctx) Done() <-chan struct{}       { return nil }
func (c *Ctx) Err() error                  { return c.E }
func (c *Ctx) Value(key any) any           { return nil }

var _ context.Context = (*Ctx)(nil)

func NoopCancel() {}

// StatPut gives the file at path the stated existence, owner, group and permission bits.
// Native runs create the real file (needs root for chown); content is a shell script.
func StatPut(path string, exists bool, uid, gid uint32, mode uint32) {
	if !exists {
		_ = os.Remove(path)
		return
	}
	// an existing file keeps its content and modification time: only ownership and mode change
	if _, err := os.Lstat(path); err != nil {
		if err := os.WriteFile(path, []byte(scriptBody(path)), 0o700); err != nil {
			panic(err)
		}
	}
	if err := os.Chown(path, int(uid), int(gid)); err != nil {
		panic(err)
	}
	if err := os.Chmod(path, os.FileMode(mode&0o777)); err != nil {
		panic(err)
	}
}

var scripts = map[string]string{}

func scriptBody(path string) string {
	if b, ok := scripts[path]; ok {
		return b
	}
	return "#!/bin/sh\necho ran > " + path + ".marker\necho 42\n"
}

// Executed reports whether the command at path has run (it leaves a marker).
func Executed(path string) bool {
	_, err := os.Stat(path + ".marker")
	return err == nil
}

// ExecStarts is the number of times the command prepared with ExecScenario at path has actually
// been started as a process so far.
func ExecStarts(path string) int {
	b, err := os.ReadFile(path + ".starts")
	if err != nil {
		return 0
	}
	return strings.Count(string(b), "x")
}

// StopwatchStart / StopwatchOver: did the code between the two take longer than ms milliseconds?
// Symbolically: was there a command call whose duration no contract of os/exec bounds.
func StopwatchStart() int64 { return time.Now().UnixNano() }

func StopwatchOver(t0 int64, ms int) bool {
	return time.Now().UnixNano()-t0 > int64(ms)*int64(time.Millisecond)
}

// RealCommands makes the engine interpret the real util.SafeCmdExecution (instead of the
// cat/sh command model used by the controller harnesses). No effect natively.
func RealCommands() {}

// ResetExecuted forgets that the command at path has run.
func ResetExecuted(path string) { _ = os.Remove(path + ".marker") }

// SymlinkPut makes link a symbolic link to target.
func SymlinkPut(link, target string) {
	_ = os.Remove(link)
	if err := os.Symlink(target, link); err != nil {
		panic(err)
	}
}

// Exec scenarios for ExecScenario.
const (
	ExecOK        = 0 // prints text, exit 0
	ExecExitError = 1 // exit status 3 (with output)
	ExecNoStart   = 2 // passes the permission check but cannot be started (not executable)
	ExecBadFormat = 3 // executable bit set but not a valid program
	ExecTimeout   = 4 // a single process that sleeps beyond the deadline
	// prints text and exits 0 at once, leaving a grandchild that keeps the output pipe open for 4 s
	ExecGrandchild = 5
	// a shell that is still waiting for its child at the deadline: the shell is killed, the child
	// survives and keeps the output pipe open for 4 s
	ExecTimeoutOrphan = 6
)

// ExecScenario prepares the command at path to behave as stated when executed; text is what it prints.
func ExecScenario(path string, scenario int, text string) {
	ExecScenarioStderr(path, scenario, text, "")
}

// ExecScenarioStderr is ExecScenario with a text the command writes to its standard error.
func ExecScenarioStderr(path string, scenario int, text string, stderr string) {
	body := "#!/bin/sh\necho x >> " + path + ".starts\nprintf '%s' '" + text + "'\nprintf '%s' '" + stderr + "' >&2\n"
	mode := os.FileMode(0o755)
	switch scenario {
	case ExecExitError:
		body += "exit 3\n"
	case ExecNoStart:
		mode = 0o644
	case ExecBadFormat:
		body = "\x7fELFgarbage"
	case ExecTimeout:
		body = "#!/bin/sh\necho x >> " + path + ".starts\nexec sleep 4\n"
	case ExecGrandchild:
		body += "sleep 4 &\nexit 0\n"
	case ExecTimeoutOrphan:
		body = "#!/bin/sh\necho x >> " + path + ".starts\nsleep 4\nexit 0\n"
	}
	scripts[path] = body
	_ = os.Remove(path)
	if err := os.WriteFile(path, []byte(body), mode); err != nil {
		panic(err)
	}
	_ = os.Chmod(path, mode)
}

// NewContext returns a cancellable context. Symbolically its Done channel is always ready: every
// select on it may take the cancellation branch (cancellation at any point), the cancel function
// does nothing.
func NewContext() (context.Context, func()) {
	ctx, cancel := context.WithCancel(context.Background())
	return ctx, cancel
}

// CancelAfter cancels after the given number of milliseconds in native runs (no effect symbolically).
func CancelAfter(cancel func(), ms int) {
	time.AfterFunc(time.Duration(ms)*time.Millisecond, cancel)
}

// SetTicks bounds how many times a ticker case may be chosen by select on each symbolic path.
func SetTicks(n int) {}

// MutexHeld reports whether m is currently locked (native: TryLock probe; engine: ghost flag).
func MutexHeld(m *sync.Mutex) bool {
	if m.TryLock() {
		m.Unlock()
		return false
	}
	return true
}

// MutexHoldByOther makes m held by "somebody else" (another fan's analysis) who releases it after
// ms milliseconds in native runs. Symbolically a Lock() on such a mutex returns once the other
// holder has released it and TryLock() fails while it is held.
func MutexHoldByOther(m *sync.Mutex, ms int) {
	m.Lock()
	time.AfterFunc(time.Duration(ms)*time.Millisecond, m.Unlock)
}
