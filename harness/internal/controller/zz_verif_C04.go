package controller

import (
	"github.com/markusressel/fan2go/internal/control_loop"
	"github.com/markusressel/fan2go/internal/zzv"
)

//zzv:bound D1 = direct algorithm without limit: two real cycles with the same curve value from two arbitrary previous requests (nil or any 0..255) give the same request: the target depends on the curve value and the limits alone and is reached in one cycle
//zzv:bound D2 = same: curve value <= 0 gives the minimum (floor), >= 255 the maximum
//zzv:bound D3 = same: a second cycle with a curve value >= the first gives a request >= the first (all limits 0<=min<=max<=255 symbolic, curve values 0..255 as in the property; values outside are C01's subject)
//zzv:bound L1 = direct algorithm with maxPwmChangePerCycle m in 1..255 (symbolic), previous request r anywhere in [min,max]: |r' - r| <= m
//zzv:bound L2 = same: a fixed point (r' = r) is the unlimited algorithm's target S*(c), obtained by running the same real controller with the unlimited loop inside the same query (differential)
//zzv:bound L3 = same: while r != S*(c) the next request is strictly nearer to S*(c) and lies between r and S*(c); with L1 this bounds settling by ceil(255/m)+1 cycles
//zzv:outside the PID algorithm's settling value (a twin-run obligation 'idle time at the target does not influence the next step' was built on an exact virtual clock; cvc5 answers unknown after 200 s on it, so it is not registered) and settling time (products of symbolic floating-point state over an unbounded horizon): not decided by this technique; stalled never-stop fans (C02/C10) are excluded by assuming an RPM average of at least 1
//zzv:inductive ZZ_C04_Direct ZZ_C04_Limited_FullRange ZZ_C04_Limited_Scaled

func ZZ_C04_Direct() {
	e := zzC04Env(zzLoop(0))
	c := e.c
	if zzv.Choice("hasLast", 2) == 1 {
		l := zzRange("last1", 0, 255)
		c.lastSetPwm = &l
	}
	v1 := e.curve.v
	if c.UpdateFanSpeed() != nil {
		return
	}
	r1 := *c.lastSetPwm
	zzv.Record("r1", r1)
	zzv.Assert(zzv.Implies(v1 <= 0, r1 == e.fan.GetMinPwm()), "D2.curve0_gives_minimum")
	zzv.Assert(zzv.Implies(v1 >= 255, r1 == e.fan.GetMaxPwm()), "D2.curve255_gives_maximum")

	l2 := zzRange("last2", 0, 255)
	c.lastSetPwm = &l2
	if c.UpdateFanSpeed() != nil {
		return
	}
	r2 := *c.lastSetPwm
	zzv.Record("r2", r2)
	zzv.Assert(r1 == r2, "D1.history_independent_one_cycle")

	v2 := zzRange("curveValue2", 0, 255)
	zzv.Assume(v2 >= v1)
	e.curve.v = v2
	if c.UpdateFanSpeed() != nil {
		return
	}
	r3 := *c.lastSetPwm
	zzv.Record("r3", r3)
	zzv.Assert(r3 >= r1, "D3.nondecreasing_in_curve_value")
}

func zzLimitedObligations(e *zzEnv, loop control_loop.ControlLoop) {
	c := e.c
	r := zzv.Int("lastSetPwm")
	zzv.Assume(r >= e.fan.GetMinPwm())
	zzv.Assume(r <= e.fan.GetMaxPwm())
	rr := r
	c.lastSetPwm = &rr
	m := *loop.(*control_loop.DirectControlLoop).ZZMaxChange()
	if c.UpdateFanSpeed() != nil {
		return
	}
	r1 := *c.lastSetPwm
	zzv.Record("next", r1)

	// the unlimited algorithm's target on the very same controller
	c.controlLoop = control_loop.NewDirectControlLoop(nil)
	if c.UpdateFanSpeed() != nil {
		return
	}
	s := *c.lastSetPwm
	zzv.Record("unlimitedTarget", s)

	zzv.Assert(zzv.AbsInt(r1-r) <= m, "L1.step_within_limit")
	zzv.Assert(zzv.Implies(r1 == r, r == s), "L2.fixed_point_is_unlimited_target")
	closer := zzv.AbsInt(r1-s) < zzv.AbsInt(r-s)
	between := zzv.Or(zzv.And(r <= r1, r1 <= s), zzv.And(s <= r1, r1 <= r))
	zzv.Assert(zzv.Implies(r != s, zzv.And(closer, between)), "L3.monotone_approach")
}

// Fans using the full range 0..255 (the default when nothing is configured or measured).
func ZZ_C04_Limited_FullRange() {
	loop := zzLoop(1)
	e := zzNewFan(zzKindHwmon, zzv.Bool("neverStop"), true, true, true, zzv.Int("devPwm"), 1, zzv.Int("devRpm"))
	e.hw.MinPwm = zzIntPtr(0)
	e.hw.MaxPwm = zzIntPtr(255)
	e.hw.RpmMovingAvg = zzv.Float64("rpmAvg")
	zzv.Assume(e.hw.RpmMovingAvg >= 1)
	e.zzController(loop, zzRange("curveValue", 0, 255), 2)
	zzLimitedObligations(e, loop)
}

// Fans whose range is narrower than 0..255 (maximum below 255, or never-stop with a minimum above 0).
func ZZ_C04_Limited_Scaled() {
	loop := zzLoop(1)
	e := zzC04Env(loop)
	zzv.Assume(zzv.Or(e.fan.GetMaxPwm() < 255, e.fan.GetMinPwm() > 0))
	zzLimitedObligations(e, loop)
}
