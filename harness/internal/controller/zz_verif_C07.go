package controller

import (
	"github.com/markusressel/fan2go/internal/zzv"
)

//zzv:bound M3 = direct algorithm, real controller, two cycles with curve values v1 <= v2 (0..255), all limits 0<=min<=max<=255: request(v1) <= request(v2)
//zzv:bound M4 = real setPwm twice with requests r1 <= r2 (any ints in -50..305) on a non-decreasing PWM map with 1..4 (thorough 1..8) distinct keys: the value written for r1 is <= the value written for r2
//zzv:outside PWM maps that are not non-decreasing (no monotonicity is claimed for them)

func ZZ_C07_M3_RequestMonotone() {
	e := zzC04Env(zzLoop(0))
	c := e.c
	v1 := e.curve.v
	if c.UpdateFanSpeed() != nil {
		return
	}
	r1 := *c.lastSetPwm
	v2 := zzRange("curveValue2", 0, 255)
	zzv.Assume(v2 >= v1)
	e.curve.v = v2
	if c.UpdateFanSpeed() != nil {
		return
	}
	r2 := *c.lastSetPwm
	zzv.Record("r1", r1)
	zzv.Record("r2", r2)
	zzv.Assert(r1 <= r2, "M3.request_nondecreasing_in_curve_value")
}

func ZZ_C07_M4_WriteMonotone() {
	maxN := 4
	if zzv.Thorough() {
		maxN = 8
	}
	n := zzv.Choice("nkeys", maxN) + 1
	e := zzNewFan(zzKindHwmon, false, true, true, true, zzv.Int("devPwm"), 1, 0)
	e.zzController(zzLoop(0), 0, n)
	for i := 1; i < n; i++ {
		zzv.Assume(e.vals[i-1] <= e.vals[i])
	}
	r1 := zzRange("r1", -50, 305)
	r2 := zzRange("r2", -50, 305)
	zzv.Assume(r1 <= r2)
	_ = e.c.setPwm(r1)
	w1 := zzv.FilePeek(e.pwmPath)
	_ = e.c.setPwm(r2)
	w2 := zzv.FilePeek(e.pwmPath)
	zzv.Record("w1", w1)
	zzv.Record("w2", w2)
	zzv.Assert(w1 <= w2, "M4.written_pwm_nondecreasing")
}
