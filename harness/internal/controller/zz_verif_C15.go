package controller

import (
	"github.com/markusressel/fan2go/internal/zzv"
)

//zzv:bound U1 = the real (*DefaultFanController).Run start-up (context already cancelled, so the actors only restore) on a hwmon / file fan with RPM-curve data and a PWM map in the store (map contents symbolic, 2 entries): at most a handful of PWM writes happen in the whole run (the restore), the controller's PWM map is the stored one, nothing is written to the store
//zzv:bound U2 = same (hwmon, file and cmd fans) with a pwmMap in the fan's configuration and any store content for the map: the controller's PWM map is the configured one and no sweep happens
//zzv:bound U4 = the stored entries are deleted through the persistence interface the reset/init commands use (DeleteFanPwmData + DeleteFanPwmMap) and the next start then analyses the fan again (more than 200 PWM writes: the 255..0 sweep); a second start after that reuses what the first stored (start -> start history)
//zzv:outside cobra wiring of `fan reset` / `fan init` (cmd/fan imports the CLI stack; only their two delete calls are modelled); the real bbolt store (C14); U3, the README promise that configured minPwm+maxPwm skip the RPM-curve measurement, is a known finding
//zzv:stub persistence is an in-memory implementation of the Persistence interface; oklog/run.Group.Run sequentialised; time.Sleep no-op
//zzv:opts loopbound=2000 maxsteps=20000000

func ZZ_C15_U1_StoredDataReused() {
	kind := zzv.Choice("fanKind", 2) // hwmon / file (cmd fans write through a real command in replays: not counted)
	e, mem := zzStartEnv(kind, false)
	k1, k2 := zzRange("storedKey1", 0, 255), zzRange("storedKey2", 0, 255)
	zzv.Assume(k1 < k2)
	o1, o2 := zzRange("storedOut1", 0, 255), zzRange("storedOut2", 0, 255)
	mem.rpm["zzfan"] = map[int]float64{0: 0, 255: 3000}
	mem.pwmMaps["zzfan"] = map[int]int{k1: o1, k2: o2}
	err := zzStart(e, mem)
	zzv.Record("pwmWrites", zzv.FileWrites(e.pwmPath))
	zzv.Assert(err == nil, "U1.start_succeeds")
	zzv.Assert(zzv.FileWrites(e.pwmPath) <= zzFewWrites, "U1.no_pwm_write_before_regulation")
	zzv.Assert(len(e.c.pwmMap) == 2, "U1.stored_map_is_used_size")
	zzv.Assert(zzv.And(e.c.pwmMap[k1] == o1, e.c.pwmMap[k2] == o2), "U1.stored_map_is_used")
	zzv.Assert(mem.saves == 0, "U1.nothing_measured_again")
}

func ZZ_C15_U2_ConfiguredMapWins() {
	kind := zzv.Choice("fanKind", 3) // hwmon / file / cmd
	e, mem := zzStartEnv(kind, true)
	mem.rpm["zzfan"] = map[int]float64{0: 0, 255: 3000}
	if zzv.Choice("mapStored", 2) == 1 {
		mem.pwmMaps["zzfan"] = map[int]int{0: 5, 255: 250}
	}
	err := zzStart(e, mem)
	zzv.Record("pwmWrites", zzv.FileWrites(e.pwmPath))
	zzv.Assert(err == nil, "U2.start_succeeds")
	if kind != zzKindCmd {
		// a cmd fan writes through a real command in replays: its writes are not counted, the map tells
		zzv.Assert(zzv.FileWrites(e.pwmPath) <= zzFewWrites, "U2.no_sweep_with_configured_map")
	}
	zzv.Assert(zzv.And(len(e.c.pwmMap) == 3, e.c.pwmMap[128] == 128), "U2.configured_map_is_used")
}

func ZZ_C15_U4_ResetThenAnalyseOnce() {
	kind := zzKindFile // file fans: no RPM-curve measurement loop
	e, mem := zzStartEnv(kind, false)
	mem.rpm["zzfan"] = map[int]float64{0: 0, 255: 3000}
	mem.pwmMaps["zzfan"] = map[int]int{0: 0, 255: 255}
	// what `fan reset` / `fan init` do with the store
	_ = mem.DeleteFanPwmData(e.fan)
	_ = mem.DeleteFanPwmMap(e.fan.GetId())
	err := zzStart(e, mem)
	zzv.Record("pwmWritesAfterReset", zzv.FileWrites(e.pwmPath))
	zzv.Assert(err == nil, "U4.start_after_reset_succeeds")
	first := zzv.FileWrites(e.pwmPath)
	zzv.Assert(first > 200, "U4.fan_is_analysed_again_after_reset")
	_, hasMap := mem.pwmMaps["zzfan"]
	_, hasRpm := mem.rpm["zzfan"]
	zzv.Assert(zzv.And(hasMap, hasRpm), "U4.analysis_is_stored")
	// second start: straight to regulation
	err = zzStart(e, mem)
	zzv.Record("pwmWritesSecondStart", zzv.FileWrites(e.pwmPath))
	zzv.Assert(err == nil, "U4.second_start_succeeds")
	zzv.Assert(zzv.FileWrites(e.pwmPath) <= first+zzFewWrites, "U4.second_start_does_not_analyse")
}

// U3 (README: "use the minPwm and maxPwm fan config options ... That way the initialization phase
// will be skipped"): a hwmon fan with both limits configured and nothing stored.
func ZZ_C15_U3_ConfiguredLimitsSkipMeasurement() {
	e, mem := zzStartEnv(zzKindHwmon, true)
	e.hw.Config.MinPwm = zzIntPtr(30)
	e.hw.Config.MaxPwm = zzIntPtr(200)
	e.hw.MinPwm = e.hw.Config.MinPwm
	e.hw.MaxPwm = e.hw.Config.MaxPwm
	err := zzStart(e, mem)
	zzv.Record("pwmWrites", zzv.FileWrites(e.pwmPath))
	zzv.Assert(err == nil, "U3.start_succeeds")
	// the configured map has three values, so the measurement is short: the store tells (nothing is
	// saved unless something was measured)
	zzv.Assert(zzv.And(mem.saves == 0, zzv.FileWrites(e.pwmPath) <= zzFewWrites), "U3.no_rpm_curve_measurement_with_configured_limits")
}
