package controller

import (
	"errors"

	"github.com/markusressel/fan2go/internal/configuration"
	"github.com/markusressel/fan2go/internal/zzv"
)

//zzv:bound P1 = ladder of absolute rungs through the real RPM poll (measureRpm -> UpdateSimpleMovingAvg): for window n and rung j, any average 0 <= avg <= a_j and a 0-RPM reading give avg' <= a_(j+1), a_0 = 20000, a_(j+1) = a_j*(1-1/n)*(1+1e-9); the chain reaches the stall threshold (< 1 RPM) within 25*n rungs (checked concretely by the harness). n in {1,2,10,20} quick, {1,2,3,5,10,20,30,50} thorough; one solver query per rung
//zzv:bound P2 = one real control cycle, never-stop fan with RPM sensor, every algorithm, any average below the threshold (avg < 1, not NaN), the request that the same controller computes with a spinning fan equals the previous request ("unchanged") and is below the maximum, the curve evaluating normally or failing (its sensor unreadable, last value kept): the request is raised by exactly one step above the previous one, the floor offset grows, and the average is re-armed to a value from which P1 applies again
//zzv:bound P3 = same, previous request at the maximum: the cycle returns ErrFanStalledAtMaxPwm (regulation of this fan then stops with restore, C03 R3)
//zzv:bound P4 = file and cmd fans: the average is the last reading, so one 0-RPM poll puts it below the threshold
//zzv:outside prior averages above 20000 RPM; windows above 50; the wall-clock pacing of polls and cycles (tickers)
//zzv:inductive ZZ_C10_P2_StallRaises

func zzLadderLen(n int) int {
	a := 20000.0
	for j := 0; j < 25*n+1; j++ {
		if a < 1 {
			return j
		}
		a = a * (1.0 - 1.0/float64(n)) * (1.0 + 1e-9)
	}
	return -1
}

func zzRungBound(n int, j int) float64 {
	a := 20000.0
	for k := 0; k < j; k++ {
		a = a * (1.0 - 1.0/float64(n)) * (1.0 + 1e-9)
	}
	return a
}

func zzLadder(n int) {
	J := zzLadderLen(n)
	zzv.Assert(zzv.And(J > 0, J <= 25*n), "P1.chain_reaches_threshold_within_25n_polls")
	if J <= 0 {
		return
	}
	j := zzv.Choice("rung", J)
	configuration.CurrentConfig.RpmRollingWindowSize = n
	e := zzNewFan(zzKindHwmon, true, true, true, true, zzv.Int("devPwm"), 1, 0)
	e.zzController(zzLoop(0), 0, 1)
	avg := zzv.Float64("avg")
	zzv.Assume(avg >= 0)
	zzv.Assume(avg <= zzRungBound(n, j))
	e.hw.RpmMovingAvg = avg
	e.c.measureRpm(e.c.fan)
	after := e.fan.GetRpmAvg()
	zzv.RecordF("avgAfter", after)
	zzv.Assert(after <= zzRungBound(n, j+1), "P1.rung")
	zzv.Assert(after >= 0, "P1.average_stays_nonnegative")
}

func ZZ_C10_P1_Ladder_n2()  { zzLadder(2) }
func ZZ_C10_P1_Ladder_n10() { zzLadder(10) }
func ZZ_C10_P1_Ladder_n20() { zzLadder(20) }
func ZZ_C10_P1_Ladder_thorough() {
	if !zzv.Thorough() {
		zzLadder(1)
		return
	}
	ns := []int{1, 3, 5, 30, 50}
	zzLadder(ns[zzv.Choice("window", len(ns))])
}

func zzStallCycle(kind int) {
	loop := zzv.Choice("loop", 3)
	e := zzNewFan(kind, true, true, kind == zzKindHwmon, true, zzv.Int("devPwm"), 1, 0)
	if kind == zzKindHwmon {
		zzHwmonLimits(e)
	}
	e.zzController(zzLoop(loop), zzv.Int("curveValue"), 2)
	if zzv.Choice("curveCannotBeEvaluated", 2) == 1 {
		// the curve's sensor is unreadable in these cycles: the curve reports an error and its last value
		e.curve.err = errors.New("zz: sensor unreadable")
	}
	c := e.c
	l := zzRange("lastSetPwm", 0, 255)
	off := zzRange("offset", 0, 255)
	zzv.Assume(e.fan.GetMinPwm()+off <= e.fan.GetMaxPwm())
	zzv.Assume(l >= e.fan.GetMinPwm()+off)
	zzv.Assume(l <= e.fan.GetMaxPwm())

	// reference run with a spinning fan: what the controller asks for when nothing is wrong
	ll := l
	c.lastSetPwm = &ll
	c.minPwmOffset = off
	zzSetAvg(e, 1000)
	if c.UpdateFanSpeed() != nil {
		return
	}
	zzv.Assume(*c.lastSetPwm == l) // "request unchanged"

	// the same state, but the fan reports (an average of) no rotation
	l2 := l
	c.lastSetPwm = &l2
	c.minPwmOffset = off
	zzStalledAvg(e)
	maxPwm := e.fan.GetMaxPwm()
	err := c.UpdateFanSpeed()
	zzv.Assert(zzv.Or(err == nil, err == ErrFanStalledAtMaxPwm), "P3.only_stall_error")
	if err == nil {
		// whatever the algorithm does, the request never stays where the fan stalled
		zzv.Record("request", *c.lastSetPwm)
		zzv.Assert(*c.lastSetPwm != l, "P2.request_does_not_stay_at_stalled_value")
	}
	if loop == 2 {
		return // PID with an arbitrary loop term: the reference run says nothing about this cycle's target
	}
	if l >= maxPwm {
		zzv.Assert(err == ErrFanStalledAtMaxPwm, "P3.stall_at_maximum_is_reported")
		return
	}
	zzv.Assert(err == nil, "P2.no_error_below_maximum")
	if err != nil {
		return
	}
	zzv.Assert(*c.lastSetPwm > l, "P2.request_raised")
	zzv.Assert(c.minPwmOffset > off, "P2.floor_raised")
	re := e.fan.GetRpmAvg()
	zzv.Assert(zzv.And(re >= 0, re <= 20000), "P2.average_rearmed_within_ladder")
}

func zzSetAvg(e *zzEnv, v float64) {
	if e.kind == zzKindHwmon {
		e.hw.RpmMovingAvg = v
	} else {
		e.fan.SetRpmAvg(v)
	}
}

// zzStalledAvg: hwmon fans carry a moving average: any value below the threshold; file/cmd fans
// report the last reading: one real 0-RPM poll (P4).
func zzStalledAvg(e *zzEnv) {
	if e.kind == zzKindHwmon {
		a := zzv.Float64("stalledAvg")
		zzv.Assume(a < 1)
		e.hw.RpmMovingAvg = a
		return
	}
	zzv.FilePut(e.rpmPath, true, 0)
	configuration.CurrentConfig.RpmRollingWindowSize = 10
	e.c.measureRpm(e.c.fan)
	zzv.Assert(e.fan.GetRpmAvg() < 1, "P4.one_zero_poll_puts_average_below_threshold")
}

func ZZ_C10_P2_StallRaises()      { zzStallCycle(zzKindHwmon) }
func ZZ_C10_P4_StallRaises_File() { zzStallCycle(zzKindFile) }
func ZZ_C10_P4_StallRaises_Cmd()  { zzStallCycle(zzKindCmd) }
