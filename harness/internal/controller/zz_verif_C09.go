package controller

import (
	"time"

	"github.com/markusressel/fan2go/internal/configuration"
	"github.com/markusressel/fan2go/internal/curves"
	"github.com/markusressel/fan2go/internal/sensors"
	"github.com/markusressel/fan2go/internal/zzv"
)

//zzv:bound F1 = one real control cycle (UpdateFanSpeed) for each fan backend (hwmon/file/cmd) with the curve quantified at its interface (any int64 value, error or none; F3 ties the real curves to that), from any controller state satisfying C01's invariant, with a fault injected at every single site and every pair of sites among {PWM read, PWM write, mode read, mode write, RPM read, curve evaluation}; read faults are missing file / unreadable / garbage, write faults are error / silently ignored: the cycle never panics, never calls ui.Fatal, and re-establishes the invariant; so the post-state of a faulty cycle is a legal pre-state of the next one and single faults, pairs and longer fault schedules are all covered by the one step
//zzv:bound F3 = real Evaluate of linear / PID / maximum-function (PID + linear member) curves and of every function type over two PID members, over a hwmon / file / cmd sensor whose file is missing, garbage, unreadable or fine, smoothed value any float64: no panic
//zzv:bound F2 = one real RPM poll (measureRpm) under the same faults: no panic
//zzv:outside what the process does after a Go panic; panic(err) in the RunDaemon actors; os.Exit paths; write faults of cmd fans (their commands run real processes in replays)
//zzv:inductive ZZ_C09_F1_CycleWithFaults

func zzFaultyFile(path string, tag string, withIOFaults bool) {
	zzv.FileState(path, zzv.Bool(tag+".exists"), zzv.Bool(tag+".garbage"), zzv.Int(tag+".value"))
	if withIOFaults {
		zzv.FileFault(path, zzv.Bool(tag+".readFails"), 0)
	}
}

func zzFaultySensorCurve(sensKind, curveKind int) curves.SpeedCurve {
	path := zzv.TempDir("sensor") + "/temp1_input"
	zzFaultyFile(path, "sensor", sensKind != 2)
	var cfg configuration.SensorConfig
	switch sensKind {
	case 0:
		cfg = configuration.SensorConfig{ID: "zzsensor", HwMon: &configuration.HwMonSensorConfig{Platform: "zz", Index: 1, TempInput: path}}
	case 1:
		cfg = configuration.SensorConfig{ID: "zzsensor", File: &configuration.FileSensorConfig{Path: path}}
	default:
		cfg = configuration.SensorConfig{ID: "zzsensor", Cmd: &configuration.CmdSensorConfig{Exec: "/bin/cat", Args: []string{path}}}
	}
	s, _ := sensors.NewSensor(cfg)
	s.SetMovingAvg(zzv.Float64("sensorAvg"))
	sensors.RegisterSensor(s)
	lin, _ := curves.NewSpeedCurve(configuration.CurveConfig{ID: "zzlin", Linear: &configuration.LinearCurveConfig{Sensor: "zzsensor", Min: 40, Max: 80}})
	pid, _ := curves.NewSpeedCurve(configuration.CurveConfig{ID: "zzpid", PID: &configuration.PidCurveConfig{Sensor: "zzsensor", SetPoint: 60, P: -0.05, I: -0.005, D: -0.005}})
	curves.RegisterSpeedCurve(lin)
	curves.RegisterSpeedCurve(pid)
	switch curveKind {
	case 0:
		return lin
	case 1:
		return pid
	case 2:
		fn, _ := curves.NewSpeedCurve(configuration.CurveConfig{ID: "zzfun", Function: &configuration.FunctionCurveConfig{Type: configuration.FunctionMaximum, Curves: []string{"zzpid", "zzlin"}}})
		return fn
	default:
		// every function type over members that all depend on the (possibly failing) sensor
		pid2, _ := curves.NewSpeedCurve(configuration.CurveConfig{ID: "zzpid2", PID: &configuration.PidCurveConfig{Sensor: "zzsensor", SetPoint: 50, P: -0.05, I: -0.005, D: -0.005}})
		curves.RegisterSpeedCurve(pid2)
		types := []string{configuration.FunctionSum, configuration.FunctionDifference, configuration.FunctionAverage, configuration.FunctionDelta, configuration.FunctionMinimum, configuration.FunctionMaximum}
		fn, _ := curves.NewSpeedCurve(configuration.CurveConfig{ID: "zzfun2", Function: &configuration.FunctionCurveConfig{Type: types[zzv.Choice("functionType", len(types))], Curves: []string{"zzpid", "zzpid2"}}})
		return fn
	}
}

// fault sites of one control cycle / RPM poll
const (
	zzSitePwmRead = iota
	zzSitePwmWrite
	zzSiteModeRead
	zzSiteModeWrite
	zzSiteRpmRead
	zzSiteCurve
	zzSiteNone
)

// zzFaultyFanEnv: a healthy fan of any backend with faults injected at one or two sites
// (every single fault and every pair, as the property quantifies); the kind of each fault
// (unreadable vs garbage, failing vs silently ignored write) is symbolic.
func zzFaultyFanEnv() (*zzEnv, bool) {
	kind := zzv.Choice("fanKind", 3)
	a := zzv.Choice("faultA", zzSiteNone+1)
	b := zzv.Choice("faultB", zzSiteNone+1)
	zzv.Assume(a <= b)
	sel := func(site int) bool { return a == site || b == site }
	e := zzNewFan(kind, zzv.Bool("neverStop"), true, true, true, zzv.Int("devPwm"), zzv.Int("devMode"), zzv.Int("devRpm"))
	if kind == zzKindHwmon {
		zzHwmonLimits(e)
	}
	hooks := kind != zzKindCmd // cmd fans run real commands in replays: only missing/garbage files
	readFault := func(path, tag string) {
		if zzv.Bool(tag + ".garbage") {
			zzv.FileGarbage(path)
		} else if hooks && zzv.Bool(tag+".unreadable") {
			zzv.FileFault(path, true, 0)
		} else {
			zzv.FilePut(path, false, 0)
		}
	}
	if sel(zzSitePwmRead) {
		readFault(e.pwmPath, "pwmRead")
	}
	if sel(zzSiteRpmRead) {
		readFault(e.rpmPath, "rpmRead")
	}
	if sel(zzSiteModeRead) && kind == zzKindHwmon {
		readFault(e.enablePath, "modeRead")
	}
	if sel(zzSitePwmWrite) && hooks {
		zzv.FileFault(e.pwmPath, false, 1+zzv.Choice("pwmWrite.ignored", 2))
	}
	if sel(zzSiteModeWrite) && kind == zzKindHwmon {
		zzv.FileFault(e.enablePath, false, 1+zzv.Choice("modeWrite.ignored", 2))
	}
	return e, sel(zzSiteCurve)
}

func ZZ_C09_F1_CycleWithFaults() {
	e, curveFails := zzFaultyFanEnv()
	// the curve is quantified at its interface: any value, with or without an error (F3 shows that
	// the real curves over faulty sensors behave like that and never panic themselves)
	e.zzController(zzLoop(2), zzv.Int("curveValue"), 2) // PID with an arbitrary loop term subsumes the direct algorithms here
	if curveFails {
		e.curve.err = errZZNotFound
	}
	c := e.c
	if zzv.Choice("hasLast", 2) == 1 {
		l := zzRange("lastSetPwm", 0, 255)
		c.lastSetPwm = &l
	}
	c.minPwmOffset = zzRange("offset", 0, 255)
	zzv.Assume(e.fan.GetMinPwm()+c.minPwmOffset <= e.fan.GetMaxPwm())

	err := c.UpdateFanSpeed() // a panic or ui.Fatal on any path is reported as a violation of "nopanic"
	zzv.RecordB("error", err != nil)

	inv := zzv.And(c.minPwmOffset >= 0, c.minPwmOffset <= 255)
	inv = zzv.And(inv, e.fan.GetMinPwm()+c.minPwmOffset <= e.fan.GetMaxPwm())
	if c.lastSetPwm != nil {
		inv = zzv.And(inv, zzv.And(*c.lastSetPwm >= 0, *c.lastSetPwm <= 255))
	}
	zzv.Assert(inv, "F1.invariant_preserved_after_faulty_cycle")
}

// every real curve kind over every sensor backend with a faulty sensor: Evaluate never panics
func ZZ_C09_F3_CurvesOverFaultySensors() {
	curve := zzFaultySensorCurve(zzv.Choice("sensorKind", 3), zzv.Choice("curveKind", 4))
	zzv.ClockStep(zzRange("dtSec", 0, 3600), zzRange("dtMs", 0, 999))
	_, err := curve.Evaluate()
	zzv.RecordB("error", err != nil)
	zzv.Assert(true, "F3.evaluate_completes")
}

func ZZ_C09_F2_RpmPollWithFaults() {
	configuration.CurrentConfig.RpmRollingWindowSize = 10
	e, _ := zzFaultyFanEnv()
	e.zzController(zzLoop(0), 0, 2)
	e.c.measureRpm(e.c.fan)
	zzv.Assert(true, "F2.rpm_poll_completes")
}

//zzv:bound F7 = the fan's actors as the daemon runs them (real (*DefaultFanController).Run, run.Group sequentialised, up to 2 ticks): a control cycle that returns an error - a never-stop fan stalled at its maximum, or a PWM read fault in the first cycle - is notified, the fan is handed back, and Run returns nil without a panic (the caller in backend.go panics on any error Run returns, taking the other fans down with it)

func ZZ_C09_F7_ControlErrorStopsOnlyThisFan() {
	configuration.CurrentConfig.RpmPollingRate = time.Millisecond
	configuration.CurrentConfig.RpmRollingWindowSize = 10
	pwmReadFault := zzv.Choice("cause", 2) == 1 // 0: stalled at maximum, 1: PWM read fault
	e := zzNewFan(zzKindHwmon, !pwmReadFault, true, true, true, zzRange("originalPwm", 0, 255), 2, 0)
	e.hw.Config.PwmMap = &map[int]int{0: 0, 255: 255}
	mem := &zzMemPersistence{rpm: map[string]map[int]float64{"zzfan": {0: 0, 255: 3000}}, pwmMaps: map[string]map[int]int{}}
	e.curve = &zzCurve{id: "zzcurve", v: 255}
	c := &DefaultFanController{persistence: mem, fan: e.fan, curve: e.curve, updateRate: time.Millisecond,
		pwmValuesWithDistinctTarget: []int{}, controlLoop: zzLoop(0)}
	e.c = c
	if pwmReadFault {
		zzv.FileFault(e.pwmPath, true, zzv.WriteOK)
	}
	ctx, cancel := zzv.NewContext()
	zzv.CancelAfter(cancel, 3500) // native runs: start-up sleeps 2 s + 1 s before the first tick
	zzv.SetTicks(2)
	err := c.Run(ctx)
	zzv.RecordB("runReturnedError", err != nil)
	zzv.Assert(err == nil, "F7.control_error_does_not_become_a_daemon_error")
}
