package controller

import (
	"github.com/markusressel/fan2go/internal/control_loop"
	"github.com/markusressel/fan2go/internal/zzv"
)

//zzv:bound E1 = one control cycle from any controller state satisfying Inv (inductive step); curve value any int64; RPM average any float64; device PWM register any int; control loop in {direct, direct with limit 1..255, PID with arbitrary loop term}; fan limits 0<=min+offset<=max<=255
//zzv:bound E2 = same cycle: at most one PWM write, and it is pwmMap[findClosestDistinctTarget(request)] as recomputed by the real lookup (nearest-ness of that lookup is C12 N1/N3); PWM map with 2 (thorough 1..4) distinct keys
//zzv:bound E3 = Inv re-established after the cycle, so the step composes to histories of any length
//zzv:outside PWM maps with more distinct keys than the bound; control algorithms other than the three shipped ones; fans whose getters are not those of HwMonFan/FileFan/CmdFan
//zzv:bound E0 = real PidControlLoop.Cycle for any target and current (int64), any gains, with the PID term util.PidLoop.Loop an arbitrary float64 (NaN/Inf included): the result is in 0..255 or MinInt64 (NaN on amd64); every other controller harness uses this summary for the PID algorithm
//zzv:stub PID loop term (util.PidLoop.Loop) is an arbitrary float64 incl. NaN/Inf in the pid case (over-approximation of every gain, state and elapsed time)
//zzv:inductive ZZ_C01_Cycle_Hwmon ZZ_C01_Cycle_Features ZZ_C01_Cycle_FileCmd

func zzCycleObligations(e *zzEnv) {
	c := e.c
	if zzv.Choice("hasLast", 2) == 1 {
		l := zzRange("lastSetPwm", 0, 255)
		c.lastSetPwm = &l
	}
	c.minPwmOffset = zzv.Int("offset")
	zzv.Assume(c.minPwmOffset >= 0)
	zzv.Assume(c.minPwmOffset <= 255)
	minPre := e.fan.GetMinPwm()
	maxPre := e.fan.GetMaxPwm()
	zzv.Assume(0 <= minPre)
	zzv.Assume(minPre+c.minPwmOffset <= maxPre)
	zzv.Assume(maxPre <= 255)

	err := c.UpdateFanSpeed()

	if err == nil {
		req := *c.lastSetPwm
		zzv.Record("request", req)
		zzv.Assert(zzv.And(minPre <= req, req <= e.fan.GetMaxPwm()), "E1.request_within_limits")
		zzv.Record("writes", len(e.spy.pwmWrites))
		zzv.Assert(len(e.spy.pwmWrites) <= 1, "E2.at_most_one_write")
		for _, w := range e.spy.pwmWrites {
			zzv.Record("written", w)
			zzv.Assert(w == c.applyPwmMapping(c.findClosestDistinctTarget(req)), "E2.write_is_map_of_nearest")
			zzv.Assert(zzv.And(w >= 0, w <= 255), "E2.write_in_0_255")
			if len(e.keys) > 0 {
				// independent of the real lookup (C12 N1 is the thorough version of this)
				zzv.Assert(zzNearestOut(e.keys, e.vals, req, w), "E2.write_is_map_output_of_a_nearest_supported_input")
			}
		}
	} else {
		zzv.Assert(len(e.spy.pwmWrites) == 0, "E2.no_write_on_error")
	}
	inv := zzv.And(c.minPwmOffset >= 0, c.minPwmOffset <= 255)
	inv = zzv.And(inv, e.fan.GetMinPwm() >= 0)
	inv = zzv.And(inv, e.fan.GetMaxPwm() <= 255)
	inv = zzv.And(inv, e.fan.GetMinPwm()+c.minPwmOffset <= e.fan.GetMaxPwm())
	if c.lastSetPwm != nil {
		inv = zzv.And(inv, zzv.And(*c.lastSetPwm >= 0, *c.lastSetPwm <= 255))
	}
	zzv.Assert(inv, "E3.invariant_preserved")
}

// all device files present; every algorithm; symbolic limits
func ZZ_C01_Cycle_Hwmon() {
	loop := zzv.Choice("loop", 3)
	e := zzNewFan(zzKindHwmon, zzv.Bool("neverStop"), true, true, true, zzv.Int("devPwm"), zzv.Int("devEnable"), zzv.Int("devRpm"))
	zzHwmonLimits(e)
	e.zzController(zzLoop(loop), zzv.Int("curveValue"), zzNKeys())
	zzCycleObligations(e)
}

// every combination of missing device files (feature flags), direct algorithm
func ZZ_C01_Cycle_Features() {
	e := zzNewFan(zzKindHwmon, zzv.Bool("neverStop"), zzv.Bool("hasPwmFile"), zzv.Bool("hasEnableFile"), zzv.Bool("hasRpmFile"),
		zzv.Int("devPwm"), zzv.Int("devEnable"), zzv.Int("devRpm"))
	zzHwmonLimits(e)
	e.zzController(zzLoop(zzv.Choice("loop", 2)*2), zzv.Int("curveValue"), 2)
	zzCycleObligations(e)
}

func ZZ_C01_Cycle_FileCmd() {
	loop := zzv.Choice("loop", 3)
	kind := zzv.Choice("kind", 2) + 1
	e := zzNewFan(kind, zzv.Bool("neverStop"), zzv.Bool("hasPwmFile"), false, zzv.Bool("hasRpmFile"), zzv.Int("devPwm"), 1, zzv.Int("devRpm"))
	e.zzController(zzLoop(loop), zzv.Int("curveValue"), 2)
	zzCycleObligations(e)
}

// The summary used for the PID algorithm in every controller harness, proved of the real code.
func ZZ_C01_PidSummary() {
	zzv.EnableHavoc("pid.loop")
	l := control_loop.NewPidControlLoop(zzv.Float64("p"), zzv.Float64("i"), zzv.Float64("d"))
	r := l.Cycle(zzv.Int("target"), zzv.Int("current"))
	zzv.Record("cycle", r)
	zzv.Assert(zzv.Or(zzv.And(r >= 0, r <= 255), r == -9223372036854775808), "E0.pid_cycle_summary")
}
