package controller

import (
	"github.com/markusressel/fan2go/internal/zzv"
)

//zzv:bound M1 = one control cycle of a never-stop fan from any state satisfying Inv (as C01): the request is at least the floor (fan minimum + raise offset) that held before the cycle
//zzv:bound M2 = same step: the floor after the cycle is at least the floor before it (monotone, hence permanent by induction)
//zzv:bound M3 = same step: when the cycle raised the floor (stall), the request is strictly above the previous request and the floor strictly above the previous floor
//zzv:bound M4 = same step: the fan's own minimum (GetMinPwm) is never lowered by a cycle
//zzv:bound H = bounded model check: 2 (thorough 3) consecutive real cycles from a freshly constructed controller, direct algorithm, symbolic RPM averages and curve values per cycle: every request >= the initial minimum and >= every floor reached earlier
//zzv:outside PWM maps with more than 2 distinct keys (thorough 4); histories are covered by the inductive step, the BMC harness only supplies reachable witnesses
//zzv:inductive ZZ_C02_Floor_Hwmon ZZ_C02_Floor_FileCmd

func zzFloorObligations(e *zzEnv) {
	c := e.c
	lastPre := -1
	if zzv.Choice("hasLast", 2) == 1 {
		l := zzRange("lastSetPwm", 0, 255)
		c.lastSetPwm = &l
		lastPre = l
	}
	c.minPwmOffset = zzRange("offset", 0, 255)
	minPre := e.fan.GetMinPwm()
	maxPre := e.fan.GetMaxPwm()
	offPre := c.minPwmOffset
	floorPre := minPre + offPre
	zzv.Assume(0 <= minPre)
	zzv.Assume(floorPre <= maxPre)
	zzv.Assume(maxPre <= 255)

	err := c.UpdateFanSpeed()

	floorPost := e.fan.GetMinPwm() + c.minPwmOffset
	zzv.Record("floorPost", floorPost)
	if err == nil {
		req := *c.lastSetPwm
		zzv.Record("request", req)
		zzv.Assert(req >= floorPre, "M1.request_ge_floor")
		raised := c.minPwmOffset != offPre
		zzv.Assert(zzv.Implies(raised, zzv.And(req > lastPre, floorPost > floorPre)), "M3.raise_is_strict")
	}
	zzv.Assert(floorPost >= floorPre, "M2.floor_monotone")
	zzv.Assert(e.fan.GetMinPwm() >= minPre, "M4.fan_minimum_not_lowered")
}

func ZZ_C02_Floor_Hwmon() {
	loop := zzv.Choice("loop", 3)
	e := zzNewFan(zzKindHwmon, true, true, true, true, zzv.Int("devPwm"), zzv.Int("devEnable"), zzv.Int("devRpm"))
	zzHwmonLimits(e)
	e.zzController(zzLoop(loop), zzv.Int("curveValue"), zzNKeys())
	zzFloorObligations(e)
}

func ZZ_C02_Floor_FileCmd() {
	loop := zzv.Choice("loop", 3)
	kind := zzv.Choice("kind", 2) + 1
	e := zzNewFan(kind, true, true, false, true, zzv.Int("devPwm"), 1, zzv.Int("devRpm"))
	e.zzController(zzLoop(loop), zzv.Int("curveValue"), 2)
	zzFloorObligations(e)
}

// History from a fresh controller: consecutive cycles with arbitrary RPM averages and curve values.
func ZZ_C02_H_History() {
	depth := 2
	if zzv.Thorough() {
		depth = 3
	}
	e := zzNewFan(zzKindHwmon, true, true, true, true, zzv.Int("devPwm"), 1, zzv.Int("devRpm"))
	mn := zzRange("minPwm", 0, 255)
	mx := zzRange("maxPwm", 0, 255)
	zzv.Assume(mn <= mx)
	e.hw.MinPwm = &mn
	e.hw.MaxPwm = &mx
	e.zzController(zzLoop(0), 0, 1)
	min0 := e.fan.GetMinPwm()
	floor := min0
	for i := 0; i < depth; i++ {
		e.curve.v = zzv.Int("curveValue")
		e.hw.RpmMovingAvg = zzv.Float64("rpmAvg")
		err := e.c.UpdateFanSpeed()
		if err != nil {
			return
		}
		req := *e.c.lastSetPwm
		zzv.Record("request", req)
		zzv.Assert(req >= min0, "H.request_ge_initial_minimum")
		zzv.Assert(req >= floor, "H.request_ge_raised_floor")
		nf := e.fan.GetMinPwm() + e.c.minPwmOffset
		zzv.Assert(nf >= floor, "H.floor_never_drops")
		floor = nf
	}
}

//zzv:bound M5 = the other actor that runs while a fan is regulated: one real RPM-monitor tick (measureRpm: PWM and RPM read, moving average, RPM-curve bookkeeping) of a never-stop hwmon / file / cmd fan from any state, device PWM any 0..255 (so also values below the floor, as a third party or the firmware may leave them), RPM any int: neither the fan's minimum nor the raise offset is lowered, so the floor does not drop between cycles either

func ZZ_C02_M5_MonitorTickKeepsFloor() {
	kind := zzv.Choice("kind", 3)
	e := zzNewFan(kind, true, true, kind == zzKindHwmon, true, zzRange("devPwm", 0, 255), 1, zzv.Int("devRpm"))
	if kind == zzKindHwmon {
		zzHwmonLimits(e)
		zzv.Assume(e.hw.RpmMovingAvg >= 0)
		zzv.Assume(e.hw.RpmMovingAvg <= 20000)
	}
	e.zzController(zzLoop(0), 100, 2)
	c := e.c
	if zzv.Choice("hasLast", 2) == 1 {
		l := zzRange("lastSetPwm", 0, 255)
		c.lastSetPwm = &l
	}
	c.minPwmOffset = zzRange("offset", 0, 255)
	minPre, offPre := e.fan.GetMinPwm(), c.minPwmOffset
	c.measureRpm(e.fan)
	zzv.Record("minPost", e.fan.GetMinPwm())
	zzv.Assert(e.fan.GetMinPwm() >= minPre, "M5.monitor_tick_does_not_lower_the_minimum")
	zzv.Assert(c.minPwmOffset >= offPre, "M5.monitor_tick_keeps_the_raise")
}
