package controller

import (
	"github.com/markusressel/fan2go/internal/zzv"
)

//zzv:bound I = one real control cycle of a hwmon fan (mode + PWM + RPM files present, writes succeed, the device reads back what is written) from any consistent state (device PWM = map output of the nearest supported input of the last request, mode = manual), preceded by an arbitrary third-party action: mode set to 0/2/3 or left alone, PWM set to any 0..255 or left alone; every algorithm; PWM map with 2 (thorough 1..4) distinct keys; at any cycle index because the consistent state is re-established (I5)
//zzv:outside failing or ignored writes during the cycle (C03/C09); PWM maps whose device read-back differs from the written value
//zzv:inductive ZZ_C05_Interference

func ZZ_C05_Interference() {
	loop := zzv.Choice("loop", 3)
	e := zzNewFan(zzKindHwmon, zzv.Bool("neverStop"), true, true, true, 0, 1, zzv.Int("devRpm"))
	zzHwmonLimits(e)
	e.zzController(zzLoop(loop), zzv.Int("curveValue"), zzNKeys())
	c := e.c
	l := zzRange("lastSetPwm", 0, 255)
	c.lastSetPwm = &l
	c.minPwmOffset = zzRange("offset", 0, 255)
	zzv.Assume(e.fan.GetMinPwm()+c.minPwmOffset <= e.fan.GetMaxPwm())

	// consistent pre-state
	expected := c.applyPwmMapping(c.findClosestDistinctTarget(l))
	// third-party action
	tpPwm := zzRange("thirdPartyPwm", 0, 255)
	devPwm := zzv.IteInt(zzv.Bool("thirdPartyTouchesPwm"), tpPwm, expected)
	zzv.FilePut(e.pwmPath, true, devPwm)
	mode := 1
	switch zzv.Choice("thirdPartyMode", 4) {
	case 1:
		mode = 0
	case 2:
		mode = 2
	case 3:
		mode = 3
	}
	zzv.FilePut(e.enablePath, true, mode)
	before := c.stats.UnexpectedPwmValueCount

	err := c.UpdateFanSpeed()
	if err != nil {
		return // stalled at maximum: regulation stops (C03/C10)
	}
	req := *c.lastSetPwm
	want := c.applyPwmMapping(c.findClosestDistinctTarget(req))
	zzv.Record("request", req)
	zzv.Record("pwmAfter", zzv.FilePeek(e.pwmPath))
	zzv.Record("modeAfter", zzv.FilePeek(e.enablePath))
	zzv.Assert(zzv.FilePeek(e.enablePath) == 1, "I1.manual_mode_reasserted")
	zzv.Assert(zzv.FilePeek(e.pwmPath) == want, "I2.pwm_is_what_the_target_dictates")
	after := c.stats.UnexpectedPwmValueCount
	zzv.Assert(zzv.Implies(devPwm != expected, after > before), "I3.changed_pwm_is_counted")
	zzv.Assert(zzv.Implies(devPwm == expected, after == before), "I4.no_count_without_pwm_change")
	// consistency re-established: the next cycle starts from a consistent state again
	zzv.Assert(zzv.FilePeek(e.pwmPath) == c.applyPwmMapping(c.findClosestDistinctTarget(*c.lastSetPwm)), "I5.consistent_state_reestablished")
}

//zzv:bound H = the same fan driven through three consecutive real cycles from a consistent state, a third party rewriting the PWM value before any subset of them with independently chosen values (so "the same foreign value again" and "the same value after an undisturbed cycle" are inside): every disturbed cycle is counted, no undisturbed cycle is, and the device ends every cycle at what the target dictates

// H: the counter clause over histories. The inductive harness above starts every cycle from a state
// built from the fields the controller has today; whatever else a changed controller remembers
// between cycles is only reachable by actually running consecutive cycles.
func ZZ_C05_History() {
	loop := zzv.Choice("loop", 2)
	e := zzNewFan(zzKindHwmon, zzv.Bool("neverStop"), true, true, true, 0, 1, 1000)
	zzHwmonLimits(e)
	e.zzController(zzLoop(loop), zzv.Int("curveValue"), 2)
	c := e.c
	l := zzRange("lastSetPwm", 0, 255)
	c.lastSetPwm = &l
	zzv.FilePut(e.enablePath, true, 1)
	tags := []string{"1", "2", "3"}
	for _, tag := range tags {
		expected := c.applyPwmMapping(c.findClosestDistinctTarget(*c.lastSetPwm))
		tp := zzRange("thirdPartyPwm"+tag, 0, 255)
		dev := zzv.IteInt(zzv.Bool("thirdPartyTouchesPwm"+tag), tp, expected)
		zzv.FilePut(e.pwmPath, true, dev)
		before := c.stats.UnexpectedPwmValueCount
		if c.UpdateFanSpeed() != nil {
			return
		}
		after := c.stats.UnexpectedPwmValueCount
		zzv.Record("count"+tag, after)
		zzv.Assert(zzv.Implies(dev != expected, after > before), "H3.every_changed_pwm_is_counted")
		zzv.Assert(zzv.Implies(dev == expected, after == before), "H4.no_count_without_pwm_change")
		zzv.Assert(zzv.FilePeek(e.pwmPath) == c.applyPwmMapping(c.findClosestDistinctTarget(*c.lastSetPwm)), "H2.pwm_is_what_the_target_dictates")
	}
}
