package controller

import (
	"github.com/markusressel/fan2go/internal/zzv"
)

//zzv:bound N3 = real (*DefaultFanController).setPwm on a PWM map with 1..4 (thorough 1..8) distinct keys (any strictly increasing keys 0..255, any outputs 0..255) and any request -50..305, device PWM register any value, readable or not: afterwards the device shows pwmMap[k] for a key k nearest to the request (either neighbour when equidistant), whether the write happened or was skipped because the device already showed it; the request is remembered as given
//zzv:outside PWM maps with more distinct keys than the bound

func ZZ_C12_N3_WrittenValueIsNearest() {
	maxN := 4
	if zzv.Thorough() {
		maxN = 8
	}
	n := zzv.Choice("nkeys", maxN) + 1
	e := zzNewFan(zzKindHwmon, false, zzv.Bool("pwmReadable"), true, true, zzv.Int("devPwm"), 1, 0)
	e.zzController(zzLoop(0), 0, n)
	req := zzRange("request", -50, 305)
	err := e.c.setPwm(req)
	zzv.Assert(err == nil, "N3.write_succeeds")
	w := zzv.FilePeek(e.pwmPath)
	zzv.Record("device", w)
	zzv.Assert(zzNearestOut(e.keys, e.vals, req, w), "N3.device_shows_map_output_of_nearest_key")
	zzv.Assert(*e.c.lastSetPwm == req, "N3.request_remembered")
}
