package controller

import (
	"github.com/markusressel/fan2go/internal/zzv"
)

//zzv:bound N3 = real (*DefaultFanController).setPwm on a PWM map with 1..4 (thorough 1..8) distinct keys (any strictly increasing keys 0..255, any outputs 0..255) and any request -50..305, device PWM register any value, readable or not: afterwards the device shows pwmMap[k] for a key k nearest to the request (either neighbour when equidistant), whether the write happened or was skipped because the device already showed it; the request is remembered as given
//zzv:outside PWM maps with more distinct keys than the bound

func ZZ_C12_N3_WrittenValueIsNearest() {
	maxN := 4
	if zzv.Thorough() {
		maxN = 8
	}
	n := zzv.Choice("nkeys", maxN) + 1
	e := zzNewFan(zzKindHwmon, false, zzv.Bool("pwmReadable"), true, true, zzv.Int("devPwm"), 1, 0)
	e.zzController(zzLoop(0), 0, n)
	req := zzRange("request", -50, 305)
	err := e.c.setPwm(req)
	zzv.Assert(err == nil, "N3.write_succeeds")
	w := zzv.FilePeek(e.pwmPath)
	zzv.Record("device", w)
	zzv.Assert(zzNearestOut(e.keys, e.vals, req, w), "N3.device_shows_map_output_of_nearest_key")
	zzv.Assert(*e.c.lastSetPwm == req, "N3.request_remembered")
}

//zzv:bound N3p = the same through the real updateDistinctPwmValues on general maps with 1..4 (thorough 1..6) entries whose outputs may repeat (plateaus, constant maps, non-monotonic maps): the device ends at the map output of the nearest *supported* input, where the supported inputs are the first key of each run of equal outputs

func ZZ_C12_N3p_PlateauMaps() {
	maxN := 4
	if zzv.Thorough() {
		maxN = 6
	}
	n := zzv.Choice("entries", maxN) + 1
	e := zzNewFan(zzKindHwmon, false, zzv.Bool("pwmReadable"), true, true, zzv.Int("devPwm"), 1, 0)
	e.zzController(zzLoop(0), 0, 1)
	keys := make([]int, n)
	outs := make([]int, n)
	m := map[int]int{}
	for i := 0; i < n; i++ {
		keys[i] = zzRange("mapKey", 0, 255)
		outs[i] = zzRange("mapOut", 0, 255)
		if i > 0 {
			zzv.Assume(keys[i-1] < keys[i])
		}
		m[keys[i]] = outs[i]
	}
	e.c.pwmMap = m
	e.c.updateDistinctPwmValues() // the real first-key-of-each-run extraction
	req := zzRange("request", -50, 305)
	err := e.c.setPwm(req)
	zzv.Assert(err == nil, "N3p.write_succeeds")
	w := zzv.FilePeek(e.pwmPath)
	zzv.Record("device", w)
	// oracle: entry i is a supported input iff it starts a run; the device shows the output of a nearest supported input
	ok := false
	for i := 0; i < n; i++ {
		sup := true
		if i > 0 {
			sup = outs[i] != outs[i-1]
		}
		nearest := sup
		for j := 0; j < n; j++ {
			supJ := true
			if j > 0 {
				supJ = outs[j] != outs[j-1]
			}
			nearest = zzv.And(nearest, zzv.Implies(supJ, zzv.AbsInt(keys[i]-req) <= zzv.AbsInt(keys[j]-req)))
		}
		ok = zzv.Or(ok, zzv.And(nearest, w == outs[i]))
	}
	zzv.Assert(ok, "N3p.device_shows_output_of_nearest_supported_input")
}
