package controller

import (
	"time"

	"github.com/markusressel/fan2go/internal/configuration"
	"github.com/markusressel/fan2go/internal/fans"
	"github.com/markusressel/fan2go/internal/zzv"
)

//zzv:bound R1 = real restorePwmEnabled on a hwmon fan: original mode in {0,1,2,3,5}, original PWM any 0..255, current PWM register any 0..255, fan limits (minPwm, maxPwm) any 0..255, neverStop on/off, control-mode file present or not, the mode write succeeding / failing / silently ignored: whenever PWM writes are accepted the fan ends in its original mode (if that was not manual) or at PWM 255
//zzv:bound R2 = same with PWM writes failing or ignored as well: whenever the original mode is not verifiably restored the last PWM write attempted is 255
//zzv:bound R3 = the real (*DefaultFanController).Run start-up followed by its real actor closures (oklog/run.Group.Run sequentialised): context cancellation at any tick <= 2 and a fatal control error (never-stop fan stalled at maximum) both end with the restore routine having run (device in original mode or at 255)
//zzv:bound R4 = the real Run() on a hwmon fan without stored data whose initial analysis (real RunInitializationSequence: measurement loop over a three-entry configured map, settle loop included) fails because its result cannot be stored: Run returns the error after the restore routine has run
//zzv:outside delivery of real signals and a second signal; concurrent interleaving of the actors (every actor is tried as the first one to return, but actors do not interleave); arrival during the start-up sleeps
//zzv:stub oklog/run.Group.Run executes the actors one after the other; select picks any ready case (ticker limited to 2 ticks)

var zzModes = []int{0, 1, 2, 3, 5}

func zzRestoreEnv() (*zzEnv, int, int) {
	orig := zzModes[zzv.Choice("originalMode", len(zzModes))]
	origPwm := zzRange("originalPwm", 0, 255)
	e := zzNewFan(zzKindHwmon, zzv.Bool("neverStop"), true, zzv.Bool("hasModeFile"), true, zzRange("currentPwm", 0, 255), 1, 0)
	zzHwmonLimits(e) // the fan's regulation range is not the range of the hardware: full speed is 255 whatever maxPwm says
	e.zzController(zzLoop(0), 0, 1)
	e.c.originalPwmEnabled = fans.ControlMode(orig)
	e.c.originalPwmValue = origPwm
	return e, orig, origPwm
}

func zzRestored(e *zzEnv, orig int) bool {
	modeBack := zzv.And(zzv.FileExists(e.enablePath), zzv.And(zzv.FilePeek(e.enablePath) == orig, orig != 1))
	return zzv.Or(modeBack, zzv.FilePeek(e.pwmPath) == 255)
}

func ZZ_C03_R1_Restore() {
	e, orig, _ := zzRestoreEnv()
	zzv.FileFault(e.enablePath, false, zzv.Choice("modeWrite", 3))
	e.c.restorePwmEnabled()
	zzv.Record("modeAfter", zzv.FilePeek(e.enablePath))
	zzv.Record("pwmAfter", zzv.FilePeek(e.pwmPath))
	zzv.Assert(zzRestored(e, orig), "R1.original_mode_or_full_speed")
}

func ZZ_C03_R2_RestoreWithPwmFaults() {
	e, orig, _ := zzRestoreEnv()
	zzv.FileFault(e.enablePath, false, zzv.Choice("modeWrite", 3))
	zzv.FileFault(e.pwmPath, false, zzv.Choice("pwmWrite", 3))
	e.c.restorePwmEnabled()
	n := len(e.spy.pwmWrites)
	modeBack := zzv.And(zzv.FileExists(e.enablePath), zzv.And(zzv.FilePeek(e.enablePath) == orig, orig != 1))
	last := -1
	if n > 0 {
		last = e.spy.pwmWrites[n-1]
	}
	zzv.Record("lastPwmWrite", last)
	zzv.Assert(zzv.Or(modeBack, last == 255), "R2.last_attempted_write_is_full_speed")
}

func ZZ_C03_R3_StopRestores() {
	orig := zzModes[zzv.Choice("originalMode", len(zzModes))]
	origPwm := zzRange("originalPwm", 0, 255)
	stalled := zzv.Choice("stalledAtMax", 2) == 1
	configuration.CurrentConfig.RpmPollingRate = time.Millisecond
	configuration.CurrentConfig.RpmRollingWindowSize = 10
	e := zzNewFan(zzKindHwmon, stalled, true, true, true, origPwm, orig, 0)
	e.hw.Config.PwmMap = &map[int]int{0: 0, 255: 255}
	mem := &zzMemPersistence{rpm: map[string]map[int]float64{"zzfan": {0: 0, 255: 3000}}, pwmMaps: map[string]map[int]int{}}
	e.curve = &zzCurve{id: "zzcurve", v: 255}
	e.spy = &zzSpyFan{Fan: e.fan}
	c := &DefaultFanController{persistence: mem, fan: e.fan, curve: e.curve, updateRate: time.Millisecond,
		pwmValuesWithDistinctTarget: []int{}, controlLoop: zzLoop(0)}
	e.c = c
	ctx, cancel := zzv.NewContext()
	// when the termination arrives. Native runs: start-up sleeps 2 s, the control actor waits 1 s
	// before its first tick. Window 0: inside that second (symbolically: no tick can be taken, so
	// every select sees only the cancellation); window 1: while ticking (up to 2 ticks).
	if zzv.Choice("cancelWindow", 2) == 0 {
		zzv.CancelAfter(cancel, 2500)
		zzv.SetTicks(0)
	} else {
		zzv.CancelAfter(cancel, 3500)
		zzv.SetTicks(2)
	}
	err := c.Run(ctx)
	zzv.Record("modeAfter", zzv.FilePeek(e.enablePath))
	zzv.Record("pwmAfter", zzv.FilePeek(e.pwmPath))
	zzv.Assert(err == nil, "R3.run_returns_cleanly")
	zzv.Assert(zzRestored(e, orig), "R3.stopping_restores_the_fan")
}

// R4: the initial analysis of a fan fails (here: its result cannot be stored): Run must hand the
// fan back before it returns the error.
func ZZ_C03_R4_FailedInitialisationRestores() {
	orig := zzModes[zzv.Choice("originalMode", len(zzModes))]
	origPwm := zzRange("originalPwm", 0, 255)
	configuration.CurrentConfig.RpmPollingRate = time.Millisecond
	configuration.CurrentConfig.RpmRollingWindowSize = 10
	configuration.CurrentConfig.MaxRpmDiffForSettledFan = 1000000
	configuration.CurrentConfig.FanResponseDelay = 0
	e := zzNewFan(zzKindHwmon, false, true, true, true, origPwm, orig, 1300)
	e.hw.Config.PwmMap = &map[int]int{0: 0, 128: 128, 200: 200} // no sweep: the measurement loop runs over three values and ends at PWM 200, not at full speed
	mem := &zzMemPersistence{rpm: map[string]map[int]float64{}, pwmMaps: map[string]map[int]int{}, failRpmSave: true}
	c := &DefaultFanController{persistence: mem, fan: e.fan, curve: &zzCurve{id: "zzcurve", v: 100}, updateRate: time.Millisecond,
		pwmValuesWithDistinctTarget: []int{}, controlLoop: zzLoop(0)}
	e.c = c
	ctx, cancel := zzv.NewContext()
	defer cancel()
	err := c.Run(ctx)
	zzv.Record("modeAfter", zzv.FilePeek(e.enablePath))
	zzv.Record("pwmAfter", zzv.FilePeek(e.pwmPath))
	zzv.Assert(err != nil, "R4.failed_initialisation_is_reported")
	zzv.Assert(zzRestored(e, orig), "R4.failed_initialisation_restores_the_fan")
}
