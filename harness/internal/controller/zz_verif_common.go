package controller

import (
	"time"

	"github.com/markusressel/fan2go/internal/configuration"
	"github.com/markusressel/fan2go/internal/control_loop"
	"github.com/markusressel/fan2go/internal/fans"
	"github.com/markusressel/fan2go/internal/zzv"
)

// ---- harness doubles (pure Go, interpreted by the engine like any other code) ----

// zzCurve is a stub speed curve returning a harness-chosen value.
type zzCurve struct {
	id  string
	v   int
	err error
}

func (c *zzCurve) GetId() string          { return c.id }
func (c *zzCurve) Evaluate() (int, error) { return c.v, c.err }
func (c *zzCurve) CurrentValue() int      { return c.v }

// zzSpyFan records every SetPwm / SetPwmEnabled argument and forwards to the real fan.
type zzSpyFan struct {
	fans.Fan
	pwmWrites  []int
	modeWrites []int
}

func (s *zzSpyFan) SetPwm(pwm int) error {
	s.pwmWrites = append(s.pwmWrites, pwm)
	return s.Fan.SetPwm(pwm)
}

func (s *zzSpyFan) SetPwmEnabled(m fans.ControlMode) error {
	s.modeWrites = append(s.modeWrites, int(m))
	return s.Fan.SetPwmEnabled(m)
}

const (
	zzKindHwmon = 0
	zzKindFile  = 1
	zzKindCmd   = 2
)

// zzEnv is one fan + its fake device files + a controller around it.
type zzEnv struct {
	kind                         int
	dir                          string
	pwmPath, enablePath, rpmPath string
	fan                          fans.Fan
	hw                           *fans.HwMonFan
	spy                          *zzSpyFan
	curve                        *zzCurve
	c                            *DefaultFanController
	keys                         []int
	vals                         []int
}

func zzIntPtr(v int) *int { return &v }

// zzNewFan builds a real fan of the given kind over fake device files.
//
//	hasPwm/hasEnable/hasRpm: which device files exist (feature flags of the fan)
func zzNewFan(kind int, neverStop bool, hasPwm, hasEnable, hasRpm bool, pwm, enable, rpm int) *zzEnv {
	e := &zzEnv{kind: kind}
	e.dir = zzv.TempDir("fan")
	e.pwmPath = e.dir + "/pwm1"
	e.enablePath = e.dir + "/pwm1_enable"
	e.rpmPath = e.dir + "/fan1_input"
	switch kind {
	case zzKindHwmon:
		zzv.FilePut(e.pwmPath, hasPwm, pwm)
		zzv.FilePut(e.enablePath, hasEnable, enable)
		zzv.FilePut(e.rpmPath, hasRpm, rpm)
		e.hw = &fans.HwMonFan{
			Label: "zzfan",
			Index: 1,
			Config: configuration.FanConfig{
				ID:        "zzfan",
				NeverStop: neverStop,
				Curve:     "zzcurve",
				HwMon: &configuration.HwMonFanConfig{
					Platform: "zz", Index: 1, RpmChannel: 1, PwmChannel: 1, SysfsPath: e.dir,
					RpmInputPath: e.rpmPath, PwmPath: e.pwmPath, PwmEnablePath: e.enablePath,
				},
			},
		}
		e.fan = e.hw
	case zzKindFile:
		// a file fan needs its pwm file to support the PWM sensor; the RPM path is optional
		zzv.FilePut(e.pwmPath, hasPwm, pwm)
		rp := ""
		if hasRpm {
			rp = e.rpmPath
			zzv.FilePut(e.rpmPath, true, rpm)
		}
		e.fan = &fans.FileFan{Config: configuration.FanConfig{
			ID: "zzfan", NeverStop: neverStop, Curve: "zzcurve",
			File: &configuration.FileFanConfig{Path: e.pwmPath, RpmPath: rp},
		}}
	default:
		zzv.FilePut(e.pwmPath, true, pwm)
		cc := &configuration.CmdFanConfig{
			SetPwm: &configuration.ExecConfig{Exec: "/bin/sh", Args: []string{"-c", "echo $0 > " + e.pwmPath, "%pwm%"}},
		}
		if hasPwm {
			cc.GetPwm = &configuration.ExecConfig{Exec: "/bin/cat", Args: []string{e.pwmPath}}
		}
		if hasRpm {
			zzv.FilePut(e.rpmPath, true, rpm)
			cc.GetRpm = &configuration.ExecConfig{Exec: "/bin/cat", Args: []string{e.rpmPath}}
		}
		e.fan = &fans.CmdFan{Config: configuration.FanConfig{ID: "zzfan", NeverStop: neverStop, Curve: "zzcurve", Cmd: cc}}
	}
	return e
}

// zzSymbolicMap gives a PWM map with n entries: keys strictly increasing in 0..255, outputs in
// 0..255 with adjacent outputs different (so every key is a "distinct" key, which is all a control
// cycle ever looks at).
func zzSymbolicMap(n int) (keys []int, vals []int, m map[int]int) {
	keys = make([]int, n)
	vals = make([]int, n)
	m = map[int]int{}
	for i := 0; i < n; i++ {
		keys[i] = zzv.Int("key")
		vals[i] = zzv.Int("out")
		zzv.Assume(keys[i] >= 0)
		zzv.Assume(keys[i] <= 255)
		zzv.Assume(vals[i] >= 0)
		zzv.Assume(vals[i] <= 255)
		if i > 0 {
			zzv.Assume(keys[i-1] < keys[i])
			zzv.Assume(vals[i-1] != vals[i])
		}
		m[keys[i]] = vals[i]
	}
	return
}

// zzNearestOut reports whether w is the map output of a key nearest to req.
func zzNearestOut(keys, vals []int, req int, w int) bool {
	ok := false
	for i := range keys {
		nearest := true
		for j := range keys {
			nearest = zzv.And(nearest, zzv.AbsInt(keys[i]-req) <= zzv.AbsInt(keys[j]-req))
		}
		ok = zzv.Or(ok, zzv.And(nearest, w == vals[i]))
	}
	return ok
}

// zzLoop selects the control algorithm: 0 direct, 1 direct with a symbolic limit m>=1,
// 2 PID whose loop term is an arbitrary float64 (havoc; covers every gain, state and dt).
func zzLoop(which int) control_loop.ControlLoop {
	switch which {
	case 0:
		return control_loop.NewDirectControlLoop(nil)
	case 1:
		m := zzv.Int("maxChange")
		zzv.Assume(m >= 1)
		zzv.Assume(m <= 255)
		return control_loop.NewDirectControlLoop(&m)
	default:
		return zzPidSummary{}
	}
}

// zzPidSummary stands for the real PidControlLoop.Cycle with an arbitrary PID term: whatever the
// gains, the PID memory and the elapsed time are, Cycle returns a value in 0..255 or (for a NaN
// term on amd64) MinInt64. ZZ_C01_PidSummary proves exactly this of the real code (the PID term
// util.PidLoop.Loop havoc'd to any float64 incl. NaN/Inf); the other harnesses use the summary.
type zzPidSummary struct{}

func (zzPidSummary) Cycle(target int, current int) int {
	r := zzv.Int("pid.cycle")
	zzv.Assume(zzv.Or(zzv.And(r >= 0, r <= 255), r == -9223372036854775808))
	return r
}

// zzController wraps the fan in a spy and builds the controller state directly.
func (e *zzEnv) zzController(loop control_loop.ControlLoop, curveValue int, nKeys int) {
	e.spy = &zzSpyFan{Fan: e.fan}
	e.curve = &zzCurve{id: "zzcurve", v: curveValue}
	keys, vals, m := zzSymbolicMap(nKeys)
	e.keys, e.vals = keys, vals
	e.c = &DefaultFanController{
		fan:                         e.spy,
		curve:                       e.curve,
		pwmMap:                      m,
		pwmValuesWithDistinctTarget: keys,
		controlLoop:                 loop,
	}
}

func zzRange(name string, lo, hi int) int {
	v := zzv.Int(name)
	zzv.Assume(v >= lo)
	zzv.Assume(v <= hi)
	return v
}

// zzHwmonLimits: measured/configured limits. A nil MinPwm/MaxPwm behaves exactly like 0 / 255
// in the getters, so non-nil pointers with values in 0..255 cover the nil cases too.
func zzHwmonLimits(e *zzEnv) {
	mn := zzRange("minPwm", 0, 255)
	mx := zzRange("maxPwm", 0, 255)
	e.hw.MinPwm = &mn
	e.hw.MaxPwm = &mx
	e.hw.RpmMovingAvg = zzv.Float64("rpmAvg")
}

func zzNKeys() int {
	if zzv.Thorough() {
		return zzv.Choice("nkeys", 4) + 1
	}
	return 2
}

func zzC04Env(loop control_loop.ControlLoop) *zzEnv {
	e := zzNewFan(zzKindHwmon, zzv.Bool("neverStop"), true, true, true, zzv.Int("devPwm"), 1, zzv.Int("devRpm"))
	zzHwmonLimits(e)
	zzv.Assume(e.hw.RpmMovingAvg >= 1) // the fan is spinning (average of at least 1 RPM): no stall handling in this property
	e.zzController(loop, zzRange("curveValue", 0, 255), 2)
	zzv.Assume(e.fan.GetMinPwm() <= e.fan.GetMaxPwm())
	return e
}

// zzMemPersistence is an in-memory persistence.Persistence for controller start-up.
type zzMemPersistence struct {
	rpm     map[string]map[int]float64
	pwmMaps map[string]map[int]int
	saves   int
	// failRpmSave makes SaveFanPwmData fail (disk full, database locked ...)
	failRpmSave bool
}

var errZZNotFound = zzErr("zz: not found")

type zzErr string

func (e zzErr) Error() string { return string(e) }

func (p *zzMemPersistence) Init() error { return nil }
func (p *zzMemPersistence) LoadFanPwmData(fan fans.Fan) (map[int]float64, error) {
	d, ok := p.rpm[fan.GetId()]
	if !ok {
		return nil, errZZNotFound
	}
	return d, nil
}
func (p *zzMemPersistence) SaveFanPwmData(fan fans.Fan) error {
	if p.failRpmSave {
		return errZZNotFound
	}
	p.saves++
	p.rpm[fan.GetId()] = *fan.GetFanRpmCurveData()
	return nil
}
func (p *zzMemPersistence) DeleteFanPwmData(fan fans.Fan) error {
	delete(p.rpm, fan.GetId())
	return nil
}
func (p *zzMemPersistence) LoadFanPwmMap(fanId string) (map[int]int, error) {
	d, ok := p.pwmMaps[fanId]
	if !ok {
		return nil, errZZNotFound
	}
	return d, nil
}
func (p *zzMemPersistence) SaveFanPwmMap(fanId string, pwmMap map[int]int) error {
	p.saves++
	p.pwmMaps[fanId] = pwmMap
	return nil
}
func (p *zzMemPersistence) DeleteFanPwmMap(fanId string) error {
	delete(p.pwmMaps, fanId)
	return nil
}

// ---- daemon start-up (Run) on a fan with an in-memory store; used by C15 and C16 ----

func zzStartEnv(kind int, configuredMap bool) (*zzEnv, *zzMemPersistence) {
	configuration.CurrentConfig.RpmPollingRate = time.Millisecond
	configuration.CurrentConfig.RpmRollingWindowSize = 10
	configuration.CurrentConfig.MaxRpmDiffForSettledFan = 1000000
	e := zzNewFan(kind, false, true, true, true, 77, 2, 1500)
	if configuredMap {
		m := map[int]int{0: 0, 128: 128, 255: 255}
		switch kind {
		case zzKindHwmon:
			e.hw.Config.PwmMap = &m
		case zzKindFile:
			e.fan.(*fans.FileFan).Config.PwmMap = &m
		default:
			e.fan.(*fans.CmdFan).Config.PwmMap = &m
		}
	}
	mem := &zzMemPersistence{rpm: map[string]map[int]float64{}, pwmMaps: map[string]map[int]int{}}
	return e, mem
}

// zzFewWrites: the only PWM writes of a start that goes straight to regulation and is cancelled at
// once are those of the final restore (one or two today). Anything above this small number is an
// analysis (the sweep alone is 256 writes, a measurement at least two per distinct value); the bound
// is deliberately loose so that a change of the restore routine is not reported here.
const zzFewWrites = 4

func zzStart(e *zzEnv, mem *zzMemPersistence) error {
	e.curve = &zzCurve{id: "zzcurve", v: 100}
	// no spy wrapper here: start-up switches on the concrete fan type; PWM writes are counted by the file model
	c := &DefaultFanController{persistence: mem, fan: e.fan, curve: e.curve, updateRate: time.Millisecond,
		pwmValuesWithDistinctTarget: []int{}, controlLoop: zzLoop(0)}
	e.c = c
	ctx, cancel := zzv.NewContext()
	cancel()
	zzv.SetTicks(0)
	return c.Run(ctx)
}
