package controller

import (
	"time"

	"github.com/markusressel/fan2go/internal/configuration"
	"github.com/markusressel/fan2go/internal/zzv"
)

//zzv:bound X1 = lockset obligation on the sequential analysis code of one fan (real RunInitializationSequence: PWM-map sweep 255..0 and RPM-curve measurement over all distinct values, hwmon fan that reads back what is written, with and without an RPM sensor, constant RPM reading; started with the mutex free or held by another fan's analysis that ends later): with runFanInitializationInParallel = false every PWM write of the analysis happens while InitializationSequenceMutex is held and the mutex is not released between the first and the last analysis write; by the semantics of a mutex the analysis intervals of any number of fans are then disjoint under every schedule
//zzv:bound X3 = the same obligation on the analysis as the daemon starts it: real (*DefaultFanController).Run start-up of a hwmon or file fan with nothing stored, or with RPM-curve data stored but no PWM map, option false: apart from the few writes of the final restore every PWM write of the start-up happens while the mutex is held
//zzv:bound X4 = the same lockset obligation when the fan's PWM map is already known (stored by an interrupted earlier analysis, or configured; 18 supported values) and only the RPM-curve measurement remains
//zzv:bound X2 = with the option true the analysis completes without touching the mutex (analyses may overlap)
//zzv:outside exclusion achieved by anything other than InitializationSequenceMutex (the check would then be inconclusive, not a violation); fairness and start order of the per-fan goroutines
//zzv:stub sync.Mutex.Lock/Unlock drive a ghost 'held' flag; time.Sleep is a no-op
//zzv:opts loopbound=2000 maxsteps=50000000

// zzLockSpy records, for every PWM write, whether the initialisation mutex is held, and how often
// the mutex was observed released after the first write.
type zzLockSpy struct {
	*zzSpyFan
	held     []bool
	releases int
}

func (s *zzLockSpy) SetPwm(pwm int) error {
	h := zzv.MutexHeld(&InitializationSequenceMutex)
	if len(s.held) > 0 && !h {
		s.releases++
	}
	s.held = append(s.held, h)
	return s.zzSpyFan.SetPwm(pwm)
}

func zzAnalysis(parallel bool, hasRpm bool) (*zzLockSpy, error) {
	return zzAnalysisM(parallel, hasRpm, 0)
}

// mapSource: 0 no PWM map known yet, 1 a PWM map is in the store (an earlier analysis was
// interrupted after the sweep: the map is saved right after it, the curve data only at the end),
// 2 a pwmMap is configured for the fan.
func zzAnalysisM(parallel bool, hasRpm bool, mapSource int) (*zzLockSpy, error) {
	configuration.CurrentConfig.RunFanInitializationInParallel = parallel
	configuration.CurrentConfig.MaxRpmDiffForSettledFan = 1000000
	configuration.CurrentConfig.FanResponseDelay = 0
	configuration.CurrentConfig.RpmRollingWindowSize = 10
	e := zzNewFan(zzKindHwmon, false, true, true, hasRpm, 100, 2, 1200)
	mem := &zzMemPersistence{rpm: map[string]map[int]float64{}, pwmMaps: map[string]map[int]int{}}
	known := map[int]int{}
	for k := 0; k <= 255; k += 15 {
		known[k] = k
	}
	switch mapSource {
	case 1:
		mem.pwmMaps["zzfan"] = known
	case 2:
		e.hw.Config.PwmMap = &known
	}
	spy := &zzLockSpy{zzSpyFan: &zzSpyFan{Fan: e.fan}}
	c := &DefaultFanController{persistence: mem, fan: spy, curve: &zzCurve{id: "zzcurve"}, updateRate: time.Millisecond,
		pwmValuesWithDistinctTarget: []int{}, controlLoop: zzLoop(0)}
	err := c.RunInitializationSequence()
	return spy, err
}

func ZZ_C16_X1_AnalysisHoldsTheLock() {
	hasRpm := zzv.Choice("hasRpmSensor", 2) == 1
	if zzv.Choice("anotherAnalysisRunning", 2) == 1 {
		// another fan's analysis holds the mutex when this one starts and finishes a little later
		zzv.MutexHoldByOther(&InitializationSequenceMutex, 40)
	}
	spy, err := zzAnalysis(false, hasRpm)
	zzv.Assert(err == nil, "X1.analysis_completes")
	zzv.Record("analysisWrites", len(spy.held))
	zzv.Assert(len(spy.held) >= 256, "X1.analysis_writes_observed")
	all := true
	firstUnlocked := -1
	for i, h := range spy.held {
		if !h && firstUnlocked < 0 {
			firstUnlocked = i
		}
		all = all && h
	}
	zzv.Record("firstUnlockedWrite", firstUnlocked)
	zzv.Assert(all, "X1.every_analysis_write_holds_the_lock")
	zzv.Assert(spy.releases == 0, "X1.lock_not_released_during_analysis")
	zzv.Assert(!zzv.MutexHeld(&InitializationSequenceMutex), "X1.lock_released_afterwards")
}

func ZZ_C16_X2_ParallelOptionTakesNoLock() {
	spy, err := zzAnalysis(true, zzv.Choice("hasRpmSensor", 2) == 1)
	zzv.Assert(err == nil, "X2.analysis_completes")
	none := true
	for _, h := range spy.held {
		none = none && !h
	}
	zzv.Assert(none, "X2.no_lock_with_parallel_initialisation")
}

// X3: the analysis as the daemon starts it. Run() decides per fan what still has to be measured
// (RPM-curve data and PWM map are stored separately, so a fan can have one without the other) and
// every sweep it starts from there must be under the mutex as well. Run switches on the concrete
// fan type, so the writes are classified by the device-file model instead of a wrapper.
func ZZ_C16_X3_StartupAnalysisHoldsTheLock() {
	configuration.CurrentConfig.RunFanInitializationInParallel = false
	configuration.CurrentConfig.FanResponseDelay = 0
	kind := zzv.Choice("fanKind", 2) // hwmon / file
	e, mem := zzStartEnv(kind, false)
	if zzv.Choice("curveDataStored", 2) == 1 {
		// analysed by an earlier run whose PWM map was not stored (older version, failed save, deleted bucket)
		mem.rpm["zzfan"] = map[int]float64{0: 0, 255: 3000}
	}
	zzv.WatchWrites(e.pwmPath, &InitializationSequenceMutex)
	err := zzStart(e, mem)
	zzv.Record("pwmWrites", zzv.FileWrites(e.pwmPath))
	zzv.Record("unlockedWrites", zzv.UnlockedWrites(e.pwmPath))
	zzv.Assert(err == nil, "X3.start_succeeds")
	zzv.Assert(zzv.FileWrites(e.pwmPath) > 200, "X3.fan_is_analysed")
	// the writes of the final restore (not part of any analysis) happen without the mutex
	zzv.Assert(zzv.UnlockedWrites(e.pwmPath) <= zzFewWrites, "X3.start_up_analysis_writes_hold_the_lock")
	zzv.Assert(!zzv.MutexHeld(&InitializationSequenceMutex), "X3.lock_released_afterwards")
}

// X4: the RPM-curve measurement of a fan whose PWM map is already known (no sweep needed): the
// measurement is an analysis like any other and must hold the mutex.
func ZZ_C16_X4_MeasurementWithKnownMapHoldsTheLock() {
	mapSource := zzv.Choice("pwmMapFrom", 2) + 1
	if zzv.Choice("anotherAnalysisRunning", 2) == 1 {
		zzv.MutexHoldByOther(&InitializationSequenceMutex, 40)
	}
	spy, err := zzAnalysisM(false, true, mapSource)
	zzv.Assert(err == nil, "X4.analysis_completes")
	zzv.Record("analysisWrites", len(spy.held))
	zzv.Assert(len(spy.held) >= 10, "X4.measurement_writes_observed")
	all := true
	for _, h := range spy.held {
		all = all && h
	}
	zzv.Assert(all, "X4.every_measurement_write_holds_the_lock")
	zzv.Assert(spy.releases == 0, "X4.lock_not_released_during_measurement")
	zzv.Assert(!zzv.MutexHeld(&InitializationSequenceMutex), "X4.lock_released_afterwards")
}
