package curves

import (
	"errors"
	"github.com/markusressel/fan2go/internal/configuration"
	"github.com/markusressel/fan2go/internal/sensors"
	"github.com/markusressel/fan2go/internal/zzv"
)

// zzSensor is a harness sensor whose smoothed value / reading the harness chooses.
type zzSensor struct {
	id  string
	avg float64
	val float64
	err error
}

func (s *zzSensor) GetId() string { return s.id }
func (s *zzSensor) GetConfig() configuration.SensorConfig {
	return configuration.SensorConfig{ID: s.id}
}
func (s *zzSensor) GetValue() (float64, error) { return s.val, s.err }
func (s *zzSensor) GetMovingAvg() float64      { return s.avg }
func (s *zzSensor) SetMovingAvg(avg float64)   { s.avg = avg }

func zzRegisterSensor(id string, avg float64) *zzSensor {
	s := &zzSensor{id: id, avg: avg, val: avg}
	sensors.RegisterSensor(s)
	return s
}

// zzConstCurve is a member curve returning a harness-chosen value in 0..255 (the contract that
// C06 proves of every curve kind).
type zzConstCurve struct {
	id string
	v  int
}

func (c *zzConstCurve) GetId() string          { return c.id }
func (c *zzConstCurve) Evaluate() (int, error) { return c.v, nil }
func (c *zzConstCurve) CurrentValue() int      { return c.v }

func zzMember(id string, name string) *zzConstCurve {
	v := zzv.Int(name)
	zzv.Assume(v >= 0)
	zzv.Assume(v <= 255)
	c := &zzConstCurve{id: id, v: v}
	RegisterSpeedCurve(c)
	return c
}

func zzLinear(id, sensor string, min, max int, steps map[int]float64) SpeedCurve {
	c, err := NewSpeedCurve(configuration.CurveConfig{ID: id, Linear: &configuration.LinearCurveConfig{Sensor: sensor, Min: min, Max: max, Steps: steps}})
	if err != nil {
		panic(err)
	}
	return c
}

// documented linear configurations (README.md, fan2go.yaml, the repository's curve tests) plus a small grid
var zzMinMaxFamily = [][2]int{{40, 80}, {40, 70}, {18, 60}, {0, 100}, {-10, 50}, {20, 21}, {0, 1}, {30, 95}}

var zzStepFamily = []map[int]float64{
	{40: 0, 50: 50, 80: 255},
	{40: 0, 50: 30, 60: 100, 70: 255},
	{50: 128},
	{0: 0, 100: 255},
	{30: 50, 60: 50, 90: 200},
	{20: 10, 40: 10},
	{-20: 0, -10: 20, 0: 60, 10: 255},
	{-5: 30, 5: 200},
	{-10: 0, 0: 20, 10: 255},
}

// quick-tier subset for the two-copy monotonicity queries (a four-step list costs 150 s and more)
var zzStepQuick = []int{0, 2, 3, 5, 7, 8}

func zzMemberIds(n int) []string {
	ids := make([]string, n)
	for i := 0; i < n; i++ {
		ids[i] = zzv.IdName(i + 1)
	}
	return ids
}

var errZZ = errors.New("zz: sensor read failed")
