package curves

import (
	"github.com/markusressel/fan2go/internal/configuration"
	"github.com/markusressel/fan2go/internal/zzv"
)

//zzv:bound M1 = linear curves (min/max and non-decreasing step lists from the documented family incl. lists with negative temperatures, constants; quick tier: the lists with up to three steps, thorough: all), real Evaluate twice: for all pairs T1 <= T2 of integer milli-degree temperatures in +-2^21 the curve value does not decrease
//zzv:bound M2 = sum / maximum / minimum / average function curves over 1..4 (thorough 1..8) members: member-wise a_i <= b_i (ints 0..255) implies F(a) <= F(b)
//zzv:outside configurations outside the family (a fully symbolic configuration does not finish within the cap and is not claimed); difference and delta (not monotone by design); temperatures beyond +-2097 degrees
//zzv:opts fptimeout_quick=240

func zzGridTemp(name string) float64 {
	t := zzv.Int(name)
	zzv.Assume(t >= -(1 << 21))
	zzv.Assume(t <= 1<<21)
	return float64(t)
}

func zzMonotonePair(min, max int, steps map[int]float64) {
	T1 := zzGridTemp("T1")
	T2 := zzGridTemp("T2")
	zzv.Assume(T1 <= T2)
	zzRegisterSensor("zzs1", T1)
	zzRegisterSensor("zzs2", T2)
	c1 := zzLinear("zzc1", "zzs1", min, max, steps)
	c2 := zzLinear("zzc2", "zzs2", min, max, steps)
	v1, _ := c1.Evaluate()
	v2, _ := c2.Evaluate()
	zzv.Record("v1", v1)
	zzv.Record("v2", v2)
	zzv.Assert(v1 <= v2, "M1.hotter_never_slower")
}

func ZZ_C07_M1_MinMax() {
	mm := zzMinMaxFamily[zzv.Choice("config", len(zzMinMaxFamily))]
	zzMonotonePair(mm[0], mm[1], nil)
}

func ZZ_C07_M1_Steps() {
	if zzv.Thorough() {
		zzMonotonePair(0, 0, zzStepFamily[zzv.Choice("steps", len(zzStepFamily))])
		return
	}
	zzMonotonePair(0, 0, zzStepFamily[zzStepQuick[zzv.Choice("steps", len(zzStepQuick))]])
}

var zzMonoTypes = []string{configuration.FunctionSum, configuration.FunctionMaximum, configuration.FunctionMinimum, configuration.FunctionAverage}

func ZZ_C07_M2_Functions() {
	typ := zzMonoTypes[zzv.Choice("type", len(zzMonoTypes))]
	maxN := 4
	if zzv.Thorough() {
		maxN = 8
	}
	n := zzv.Choice("members", maxN) + 1
	idsA := make([]string, n)
	idsB := make([]string, n)
	for i := 0; i < n; i++ {
		idsA[i] = zzv.IdName(2*i + 1)
		idsB[i] = zzv.IdName(2*i + 2)
		a := zzMember(idsA[i], "a")
		b := zzMember(idsB[i], "b")
		zzv.Assume(a.v <= b.v)
	}
	fa, _ := NewSpeedCurve(configuration.CurveConfig{ID: "zzfa", Function: &configuration.FunctionCurveConfig{Type: typ, Curves: idsA}})
	fb, _ := NewSpeedCurve(configuration.CurveConfig{ID: "zzfb", Function: &configuration.FunctionCurveConfig{Type: typ, Curves: idsB}})
	va, _ := fa.Evaluate()
	vb, _ := fb.Evaluate()
	zzv.Record("va", va)
	zzv.Record("vb", vb)
	zzv.Assert(va <= vb, "M2.function_curves_inherit_monotonicity")
}
