package curves

import (
	"github.com/markusressel/fan2go/internal/configuration"
	"github.com/markusressel/fan2go/internal/zzv"
)

//zzv:bound V2 = every curve configuration that the real validateCurves accepts, out of: 3 curve entries with fixed distinct ids - a function curve of any of the six types with 0..2 members, a linear curve (min/max, or steps that are nil / empty / one entry / two entries) or maximum-function with 0..1 member, and a plain linear curve; members are any curve id, an undefined id or empty: every curve can be instantiated with the real NewSpeedCurve and evaluated with the real Evaluate (sensor value any float64) without a panic and within the recursion bound
//zzv:outside more than 3 curves or 2 members; PID curves here (their evaluation is C06/C09); the YAML loader
//zzv:opts loopbound=400

var zzAllTypes = []string{configuration.FunctionSum, configuration.FunctionDifference, configuration.FunctionAverage,
	configuration.FunctionDelta, configuration.FunctionMinimum, configuration.FunctionMaximum}

func ZZ_C11_V2_AcceptedCurvesEvaluate() {
	zzRegisterSensor(zzv.IdName(1), zzv.Float64("temperature"))
	cfg := &configuration.Configuration{Sensors: []configuration.SensorConfig{{ID: zzv.IdName(1), File: &configuration.FileSensorConfig{Path: "/tmp/t"}}}}
	ids := []string{zzv.IdName(1), zzv.IdName(2), zzv.IdName(3)}
	tags := []string{"curvea", "curveb", "curvec"}
	// curve a: a function curve of any type with 0..2 members; curve b: a linear curve (any step
	// form) or a maximum-function with 0..1 member; curve c: a plain linear curve
	for i := 0; i < 3; i++ {
		c := configuration.CurveConfig{ID: ids[i]}
		function := i == 0 || (i == 1 && zzv.Choice(tags[i]+".kind", 2) == 1)
		if !function {
			lin := &configuration.LinearCurveConfig{Sensor: zzv.IdName(1), Min: 40, Max: 80}
			if i == 1 {
				switch zzv.Choice(tags[i]+".steps", 4) {
				case 1:
					lin.Steps = map[int]float64{}
				case 2:
					lin.Steps = map[int]float64{50: 128}
				case 3:
					lin.Steps = map[int]float64{40: 0, 80: 255}
				}
			}
			c.Linear = lin
		} else {
			var members []string
			n := zzv.Choice(tags[i]+".members", 3-i)
			for k := 0; k < n; k++ {
				members = append(members, zzv.Id(tags[i]+".member", 4))
			}
			typ := configuration.FunctionMaximum
			if i == 0 {
				typ = zzAllTypes[zzv.Choice(tags[i]+".type", len(zzAllTypes))]
			}
			c.Function = &configuration.FunctionCurveConfig{Type: typ, Curves: members}
		}
		cfg.Curves = append(cfg.Curves, c)
	}
	if configuration.ZZValidateCurves(cfg) != nil {
		return
	}
	var list []SpeedCurve
	for _, cc := range cfg.Curves {
		c, err := NewSpeedCurve(cc)
		zzv.Assert(err == nil, "V2.accepted_curve_can_be_instantiated")
		if err != nil {
			return
		}
		RegisterSpeedCurve(c)
		list = append(list, c)
	}
	for _, c := range list {
		v, _ := c.Evaluate() // a panic or an exceeded recursion bound on any path is a violation
		zzv.Record("value", v)
	}
	zzv.Assert(true, "V2.accepted_configuration_evaluates")
}
