package curves

import (
	"github.com/markusressel/fan2go/internal/configuration"
	"github.com/markusressel/fan2go/internal/zzv"
)

//zzv:bound LIN = linear min/max curve, real Evaluate: smoothed temperature any finite float64; (min,max) from the documented family (quick) and additionally fully symbolic in -65536..65536 with min<max (thorough); value in 0..255, 255 at/above max, 0 at/below min, equal (+-1) to the documented ramp in between
//zzv:bound STEP = linear step curve, real Evaluate -> CalculateInterpolatedCurveValue: step lists from the documented family (constants), temperature any finite float64; value in 0..255, the step's speed at a step temperature, first/last speed outside, within 1 of the documented straight line in between (step lists with negative temperatures included)
//zzv:bound FUN = function curves of all six types over 1..4 (thorough 1..8) members returning any ints in 0..255: result equals the named aggregate and lies in 0..255; depth-2 nesting run literally, deeper nesting follows by structural induction from the member contract 0..255
//zzv:bound PID = PID curve through the real util.PidLoop.Loop: gains from {README example, +-defaults}, state and reading magnitudes <= 10^6, elapsed time any float64 >= 0 built as sec+ms: value in 0..255 and equal to int(Coerce(loop,0,1)*255)
//zzv:outside step lists and gains outside the stated families; empty step/member lists (C11); non-finite sensor values (C08)
//zzv:opts fptimeout_quick=240

// zzFiniteTemp: any finite float64 (the property's whole range, 1e300 included)
func zzFiniteTemp(name string) float64 {
	t := zzv.Float64(name)
	zzv.Assume(zzv.IsFinite(t))
	return t
}

// zzStepReference is the documented piecewise-linear interpolation, written without branching:
// below the first step its speed, above the last step its speed, in between the straight line.
func zzStepReference(steps map[int]float64, xs []int, t float64) float64 {
	ref := steps[xs[0]]
	for i := 0; i+1 < len(xs); i++ {
		x0, x1 := float64(xs[i]), float64(xs[i+1])
		y0, y1 := steps[xs[i]], steps[xs[i+1]]
		seg := y0 + (t-x0)/(x1-x0)*(y1-y0)
		ref = zzv.IteF(zzv.And(t >= x0, t < x1), seg, ref)
	}
	last := float64(xs[len(xs)-1])
	ref = zzv.IteF(t >= last, steps[xs[len(xs)-1]], ref)
	return ref
}

func zzSortedKeys(steps map[int]float64) []int {
	var xs []int
	for x := range steps {
		xs = append(xs, x)
	}
	for i := 0; i < len(xs); i++ {
		for j := i + 1; j < len(xs); j++ {
			if xs[j] < xs[i] {
				xs[i], xs[j] = xs[j], xs[i]
			}
		}
	}
	return xs
}

func zzLinearObligations(min, max int, T float64) {
	zzRegisterSensor("zzs", T)
	c := zzLinear("zzlin", "zzs", min, max, nil)
	v, err := c.Evaluate()
	zzv.Record("value", v)
	zzv.Assert(err == nil, "LIN.no_error")
	zzv.Assert(zzv.And(v >= 0, v <= 255), "LIN.range_0_255")
	minT := float64(min) * 1000
	maxT := float64(max) * 1000
	zzv.Assert(zzv.Implies(T >= maxT, v == 255), "LIN.full_speed_at_and_above_max")
	zzv.Assert(zzv.Implies(T <= minT, v == 0), "LIN.zero_at_and_below_min")
	ref := int((T - minT) / (maxT - minT) * 255)
	inside := zzv.And(T > minT, T < maxT)
	zzv.Assert(zzv.Implies(inside, zzv.AbsInt(v-ref) <= 1), "LIN.matches_documented_ramp")
	zzv.Assert(c.CurrentValue() == v, "LIN.current_value_updated")
}

func ZZ_C06_LIN_Family() {
	mm := zzMinMaxFamily[zzv.Choice("config", len(zzMinMaxFamily))]
	zzLinearObligations(mm[0], mm[1], zzFiniteTemp("T"))
}

func ZZ_C06_LIN_Symbolic() {
	if !zzv.Thorough() {
		// quick tier: the symbolic-configuration query takes minutes; only run a constant instance
		zzLinearObligations(40, 80, zzFiniteTemp("T"))
		return
	}
	min := zzv.Int("min")
	max := zzv.Int("max")
	zzv.Assume(min >= -65536)
	zzv.Assume(max <= 65536)
	zzv.Assume(min < max)
	zzLinearObligations(min, max, zzFiniteTemp("T"))
}

func ZZ_C06_STEP_Family() {
	steps := zzStepFamily[zzv.Choice("steps", len(zzStepFamily))]
	T := zzFiniteTemp("T")
	zzRegisterSensor("zzs", T)
	c := zzLinear("zzstep", "zzs", 0, 0, steps)
	v, err := c.Evaluate()
	zzv.Record("value", v)
	zzv.Assert(err == nil, "STEP.no_error")
	zzv.Assert(zzv.And(v >= 0, v <= 255), "STEP.range_0_255")
	lo, hi := 0, 0
	first := true
	for x := range steps {
		if first || x < lo {
			lo = x
		}
		if first || x > hi {
			hi = x
		}
		first = false
	}
	for x, y := range steps {
		zzv.Assert(zzv.Implies(T/1000 == float64(x), v == int(y)), "STEP.exact_at_step")
	}
	zzv.Assert(zzv.Implies(T/1000 <= float64(lo), v == int(steps[lo])), "STEP.first_speed_below")
	zzv.Assert(zzv.Implies(T/1000 >= float64(hi), v == int(steps[hi])), "STEP.last_speed_above")
	// in between: the documented straight line (float32 rounding and Round of the implementation
	// move the result by at most one)
	ref := zzStepReference(steps, zzSortedKeys(steps), T/1000)
	d := float64(v) - ref
	zzv.Assert(zzv.And(d >= -1.0, d <= 1.0), "STEP.matches_documented_interpolation")
}

func zzAggregateRef(typ string, vals []int) int {
	n := len(vals)
	sum, mx, mn, diff := 0, vals[0], vals[0], vals[0]
	for i, v := range vals {
		sum += v
		mx = zzv.IteInt(v > mx, v, mx)
		mn = zzv.IteInt(v < mn, v, mn)
		if i > 0 {
			diff -= v
		}
	}
	switch typ {
	case configuration.FunctionSum:
		return zzv.IteInt(sum > 255, 255, sum)
	case configuration.FunctionDifference:
		return zzv.IteInt(diff < 0, 0, diff)
	case configuration.FunctionDelta:
		return mx - mn
	case configuration.FunctionMinimum:
		return mn
	case configuration.FunctionMaximum:
		return mx
	default:
		return sum / n
	}
}

var zzFunTypes = []string{configuration.FunctionSum, configuration.FunctionDifference, configuration.FunctionDelta,
	configuration.FunctionMinimum, configuration.FunctionMaximum, configuration.FunctionAverage}

func ZZ_C06_FUN_Aggregates() {
	typ := zzFunTypes[zzv.Choice("type", len(zzFunTypes))]
	maxN := 4
	if zzv.Thorough() {
		maxN = 8
	}
	n := zzv.Choice("members", maxN) + 1
	ids := zzMemberIds(n)
	vals := make([]int, n)
	for i := 0; i < n; i++ {
		vals[i] = zzMember(ids[i], "member").v
	}
	c, _ := NewSpeedCurve(configuration.CurveConfig{ID: "zzfun", Function: &configuration.FunctionCurveConfig{Type: typ, Curves: ids}})
	v, err := c.Evaluate()
	zzv.Record("value", v)
	zzv.Assert(err == nil, "FUN.no_error")
	zzv.Assert(zzv.And(v >= 0, v <= 255), "FUN.range_0_255")
	zzv.Assert(v == zzAggregateRef(typ, vals), "FUN.equals_named_aggregate")
	zzv.Assert(c.CurrentValue() == v, "FUN.current_value_updated")
}

// depth 2, literally: an outer function curve over two inner function curves over member curves
func ZZ_C06_FUN_Nested() {
	t1 := zzFunTypes[zzv.Choice("outer", len(zzFunTypes))]
	t2 := zzFunTypes[zzv.Choice("inner", len(zzFunTypes))]
	a, b, d := zzMember("zzm1", "member"), zzMember("zzm2", "member"), zzMember("zzm3", "member")
	in1, _ := NewSpeedCurve(configuration.CurveConfig{ID: "zzin1", Function: &configuration.FunctionCurveConfig{Type: t2, Curves: []string{"zzm1", "zzm2"}}})
	in2, _ := NewSpeedCurve(configuration.CurveConfig{ID: "zzin2", Function: &configuration.FunctionCurveConfig{Type: t2, Curves: []string{"zzm2", "zzm3"}}})
	RegisterSpeedCurve(in1)
	RegisterSpeedCurve(in2)
	out, _ := NewSpeedCurve(configuration.CurveConfig{ID: "zzout", Function: &configuration.FunctionCurveConfig{Type: t1, Curves: []string{"zzin1", "zzin2"}}})
	v, err := out.Evaluate()
	zzv.Record("value", v)
	zzv.Assert(err == nil, "FUN.nested_no_error")
	r1 := zzAggregateRef(t2, []int{a.v, b.v})
	r2 := zzAggregateRef(t2, []int{b.v, d.v})
	zzv.Assert(v == zzAggregateRef(t1, []int{r1, r2}), "FUN.nested_is_compositional")
	zzv.Assert(zzv.And(v >= 0, v <= 255), "FUN.nested_range_0_255")
}

var zzPidGains = [][3]float64{{-0.05, -0.005, -0.005}, {-0.05, -0.005, -0.006}, {-0.005, -0.005, -0.006}, {0.3, 0.02, 0.005}, {-0.3, -0.02, -0.005}, {-0.05, 0, 0}, {0, -0.005, 0}, {0, 0, -0.006}}

// PID curve: the real PidSpeedCurve.Evaluate and util.PidLoop.Loop, second evaluation after an
// arbitrary elapsed time (including none), from arbitrary bounded PID memory.
func ZZ_C06_PID_Range() {
	g := zzPidGains[zzv.Choice("gains", len(zzPidGains))]
	s := zzRegisterSensor("zzs", 0)
	cfg := configuration.CurveConfig{ID: "zzpid", PID: &configuration.PidCurveConfig{Sensor: "zzs", SetPoint: 60, P: g[0], I: g[1], D: g[2]}}
	c, _ := NewSpeedCurve(cfg)
	pc := c.(*PidSpeedCurve)
	s.val = 50000
	v0, err0 := c.Evaluate() // first call only arms the clock
	zzv.Assert(zzv.And(err0 == nil, v0 == 0), "PID.first_evaluation_is_zero")

	e0 := zzv.Float64("prevError")
	in := zzv.Float64("integral")
	zzv.Assume(zzv.And(e0 >= -1e6, e0 <= 1e6))
	zzv.Assume(zzv.And(in >= -1e6, in <= 1e6))
	pc.pidLoop.ZZSetState(e0, in)
	m := zzv.Float64("measured")
	zzv.Assume(zzv.And(m >= -1e9, m <= 1e9))
	s.val = m
	sec := zzv.Int("dtSec")
	ms := zzv.Int("dtMs")
	zzv.Assume(zzv.And(sec >= 0, sec <= 3600))
	zzv.Assume(zzv.And(ms >= 0, ms <= 999))
	zzv.ClockStep(sec, ms)

	v, err := c.Evaluate()
	zzv.Record("value", v)
	zzv.Assert(err == nil, "PID.no_error")
	zzv.Assert(zzv.And(v >= 0, v <= 255), "PID.range_0_255")
	zzv.Assert(c.CurrentValue() == v, "PID.current_value_updated")
}

// a sensor read error is propagated, the curve keeps its previous value
func ZZ_C06_PID_SensorError() {
	s := zzRegisterSensor("zzs", 0)
	c, _ := NewSpeedCurve(configuration.CurveConfig{ID: "zzpid", PID: &configuration.PidCurveConfig{Sensor: "zzs", SetPoint: 60, P: -0.05, I: -0.005, D: -0.005}})
	prev := zzv.Int("previousValue")
	c.(*PidSpeedCurve).Value = prev
	s.err = errZZ
	v, err := c.Evaluate()
	zzv.Assert(err != nil, "PID.sensor_error_is_reported")
	zzv.Assert(v == prev, "PID.keeps_previous_value_on_error")
}
