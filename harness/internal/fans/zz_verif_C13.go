package fans

import (
	"github.com/markusressel/fan2go/internal/configuration"
	"github.com/markusressel/fan2go/internal/zzv"
)

//zzv:bound B1 = real NewFan + AttachFanRpmCurveData -> ComputePwmBoundaries on RPM-curve maps with 1..3 (thorough 1..4) entries, keys any distinct 0..255, RPM values any whole numbers 0..10^6 ; a separate harness uses arbitrary float64 RPM values 0..10^6 on 2 (thorough 1..3) entries so that the truncation to whole RPM matters: start PWM = least key with int(rpm) > 0 (255 if none), max PWM = least key attaining the largest int(rpm) (255 if all are 0), whenever the limit is not configured
//zzv:bound B2 = nil or empty data, on a fresh fan and after a successful attachment of symbolic data: error returned and no limit changed (a refusal keeps what was measured before)
//zzv:bound B3 = all eight combinations of configured minPwm/startPwm/maxPwm (values any 0..255): configured values are what the getters return after attach
//zzv:bound B4 = neverStop off: GetMinPwm() = 0 whatever is configured or measured
//zzv:bound B5 = two successive attachments of different data: the limits are those of the second data set
//zzv:outside maps with more entries than the bound; RPM values above 10^6; file and cmd fans (fixed limits, attach is a no-op)

// zzFloatRpm: RPM values are arbitrary float64 (fractional parts matter for the "whole RPM" rule)
// instead of whole numbers; set by the harnesses that want it
var zzFloatRpm = false

func zzCurveData(tag string, n int) (keys []int, rpms []float64, data map[int]float64) {
	keys = make([]int, n)
	rpms = make([]float64, n)
	data = map[int]float64{}
	for i := 0; i < n; i++ {
		keys[i] = zzv.Int(tag + "key")
		zzv.Assume(keys[i] >= 0)
		zzv.Assume(keys[i] <= 255)
		for j := 0; j < i; j++ {
			zzv.Assume(keys[j] != keys[i])
		}
		if zzFloatRpm && n <= 3 {
			rpms[i] = zzv.Float64(tag + "rpm")
			zzv.Assume(rpms[i] >= 0)
			zzv.Assume(rpms[i] <= 1000000)
		} else {
			r := zzv.Int(tag + "rpm")
			zzv.Assume(r >= 0)
			zzv.Assume(r <= 1000000)
			rpms[i] = float64(r)
		}
		data[keys[i]] = rpms[i]
	}
	return
}

// oracle over the entry list, written without branching
func zzBoundaryOracle(keys []int, rpms []float64) (start int, max int) {
	start = 255
	maxRpm := 0
	for i := range keys {
		r := int(rpms[i])
		maxRpm = zzv.IteInt(r > maxRpm, r, maxRpm)
		start = zzv.IteInt(zzv.And(r > 0, keys[i] < start), keys[i], start)
	}
	max = 256
	for i := range keys {
		r := int(rpms[i])
		max = zzv.IteInt(zzv.And(zzv.And(maxRpm > 0, r == maxRpm), keys[i] < max), keys[i], max)
	}
	max = zzv.IteInt(max == 256, 255, max)
	return
}

func zzConfiguredFan(combo int) (fan *HwMonFan, cMin, cStart, cMax *int) {
	cfg := configuration.FanConfig{ID: "zzfan", NeverStop: zzv.Bool("neverStop"), Curve: "c", HwMon: &configuration.HwMonFanConfig{Platform: "zz", Index: 1}}
	if combo&1 != 0 {
		v := zzv.Int("cfgMin")
		zzv.Assume(zzv.And(v >= 0, v <= 255))
		cfg.MinPwm = &v
	}
	if combo&2 != 0 {
		v := zzv.Int("cfgStart")
		zzv.Assume(zzv.And(v >= 0, v <= 255))
		cfg.StartPwm = &v
	}
	if combo&4 != 0 {
		v := zzv.Int("cfgMax")
		zzv.Assume(zzv.And(v >= 0, v <= 255))
		cfg.MaxPwm = &v
	}
	f, err := NewFan(cfg)
	if err != nil {
		panic(err)
	}
	return f.(*HwMonFan), cfg.MinPwm, cfg.StartPwm, cfg.MaxPwm
}

func zzEntries() int {
	if zzv.Thorough() {
		return zzv.Choice("entries", 4) + 1
	}
	return zzv.Choice("entries", 3) + 1
}

func zzCheckLimits(fan *HwMonFan, cMin, cStart, cMax *int, keys []int, rpms []float64, suffix string) {
	oStart, oMax := zzBoundaryOracle(keys, rpms)
	zzv.Record("start"+suffix, fan.GetStartPwm())
	zzv.Record("max"+suffix, fan.GetMaxPwm())
	if cStart != nil {
		zzv.Assert(fan.GetStartPwm() == *cStart, "B3.configured_start_wins"+suffix)
	} else {
		zzv.Assert(fan.GetStartPwm() == oStart, "B1.start_is_lowest_pwm_with_rotation"+suffix)
	}
	if cMax != nil {
		zzv.Assert(fan.GetMaxPwm() == *cMax, "B3.configured_max_wins"+suffix)
	} else {
		zzv.Assert(fan.GetMaxPwm() == oMax, "B1.max_is_lowest_pwm_with_highest_rpm"+suffix)
	}
	if cMin != nil {
		zzv.Assert(zzv.Implies(fan.ShouldNeverStop(), fan.GetMinPwm() == *cMin), "B3.configured_min_wins"+suffix)
	}
	zzv.Assert(zzv.Implies(zzv.Not(fan.ShouldNeverStop()), fan.GetMinPwm() == 0), "B4.minimum_0_without_neverstop"+suffix)
}

// fractional RPM values (averaged / imported data): the rule is stated in whole RPM
func ZZ_C13_AttachFractional() {
	zzFloatRpm = true
	fan, cMin, cStart, cMax := zzConfiguredFan(0)
	n := 2
	if zzv.Thorough() {
		n = zzv.Choice("entries", 3) + 1
	}
	keys, rpms, data := zzCurveData("", n)
	err := fan.AttachFanRpmCurveData(&data)
	zzFloatRpm = false
	zzv.Assert(err == nil, "B1.attach_accepts_data")
	zzCheckLimits(fan, cMin, cStart, cMax, keys, rpms, ".fractional")
}

func ZZ_C13_Attach() {
	fan, cMin, cStart, cMax := zzConfiguredFan(zzv.Choice("configured", 8))
	keys, rpms, data := zzCurveData("", zzEntries())
	err := fan.AttachFanRpmCurveData(&data)
	zzv.Assert(err == nil, "B1.attach_accepts_data")
	zzCheckLimits(fan, cMin, cStart, cMax, keys, rpms, "")
}

func ZZ_C13_EmptyData() {
	fan, _, _, _ := zzConfiguredFan(zzv.Choice("configured", 8))
	min0, start0, max0 := fan.GetMinPwm(), fan.GetStartPwm(), fan.GetMaxPwm()
	var err error
	if zzv.Choice("nil", 2) == 0 {
		err = fan.AttachFanRpmCurveData(nil)
	} else {
		empty := map[int]float64{}
		err = fan.AttachFanRpmCurveData(&empty)
	}
	zzv.Assert(err != nil, "B2.empty_data_refused")
	zzv.Assert(zzv.And(zzv.And(fan.GetMinPwm() == min0, fan.GetStartPwm() == start0), fan.GetMaxPwm() == max0), "B2.no_limit_invented")
}

func ZZ_C13_Reattach() {
	fan, cMin, cStart, cMax := zzConfiguredFan(zzv.Choice("configured", 8))
	_, _, data1 := zzCurveData("first.", 2)
	zzv.Assert(fan.AttachFanRpmCurveData(&data1) == nil, "B5.first_attach_ok")
	keys, rpms, data2 := zzCurveData("", 2)
	zzv.Assert(fan.AttachFanRpmCurveData(&data2) == nil, "B5.second_attach_ok")
	zzCheckLimits(fan, cMin, cStart, cMax, keys, rpms, ".after_reattach")
}

// A refused attachment after a successful one (history): the limits measured from the first data
// stay what they were.
func ZZ_C13_EmptyAfterAttach() {
	fan, _, _, _ := zzConfiguredFan(zzv.Choice("configured", 8))
	_, _, data1 := zzCurveData("first.", 2)
	zzv.Assert(fan.AttachFanRpmCurveData(&data1) == nil, "B2.first_attach_ok")
	min0, start0, max0 := fan.GetMinPwm(), fan.GetStartPwm(), fan.GetMaxPwm()
	var err error
	if zzv.Choice("nil", 2) == 0 {
		err = fan.AttachFanRpmCurveData(nil)
	} else {
		empty := map[int]float64{}
		err = fan.AttachFanRpmCurveData(&empty)
	}
	zzv.Record("startAfterRefusal", fan.GetStartPwm())
	zzv.Assert(err != nil, "B2.empty_data_refused_after_attach")
	zzv.Assert(zzv.And(zzv.And(fan.GetMinPwm() == min0, fan.GetStartPwm() == start0), fan.GetMaxPwm() == max0), "B2.refusal_keeps_measured_limits")
}
