package fans

import (
	"github.com/markusressel/fan2go/internal/configuration"
	"github.com/markusressel/fan2go/internal/zzv"
)

var zzCmdTexts = []string{"42", "42\n", "", "not a number", "nan"}

// T3: the fan-side callers of SafeCmdExecution. The wall-clock bound of one command is T4's
// business; here: one call = at most one command, and a command that failed, could not be started
// or overran is an error for the caller.
func ZZ_C19_T3_FanCommandCalls() {
	zzv.RealCommands()
	tool := zzv.TempDir("exec") + "/fanctl"
	scenario := zzv.Choice("scenario", 7)
	zzv.ExecScenario(tool, scenario, zzCmdTexts[zzv.Choice("text", len(zzCmdTexts))])
	fan := &CmdFan{Config: configuration.FanConfig{ID: "zzfan", Cmd: &configuration.CmdFanConfig{
		SetPwm: &configuration.ExecConfig{Exec: tool, Args: []string{"%pwm%"}},
		GetPwm: &configuration.ExecConfig{Exec: tool},
		GetRpm: &configuration.ExecConfig{Exec: tool},
	}}}
	var err error
	switch zzv.Choice("call", 3) {
	case 0:
		pwm := zzv.Int("pwm")
		zzv.Assume(pwm >= 0)
		zzv.Assume(pwm <= 255)
		err = fan.SetPwm(pwm)
	case 1:
		_, err = fan.GetPwm()
	default:
		_, err = fan.GetRpm()
	}
	zzv.RecordB("error", err != nil)
	zzv.Record("starts", zzv.ExecStarts(tool))
	zzv.Assert(zzv.ExecStarts(tool) <= 1, "T3.one_call_starts_the_command_at_most_once")
	if scenario != zzv.ExecOK && scenario != zzv.ExecGrandchild {
		zzv.Assert(err != nil, "T3.failed_command_is_an_error")
	}
}

// T5 (history, fan side): a second call on the same CmdFan after a first call with any outcome.
func ZZ_C19_T5_FanCallAfterAnyOutcome() {
	zzv.RealCommands()
	tool := zzv.TempDir("exec") + "/fanctl"
	zzv.ExecScenario(tool, zzv.Choice("firstScenario", 7), zzCmdTexts[zzv.Choice("firstText", len(zzCmdTexts))])
	fan := &CmdFan{Config: configuration.FanConfig{ID: "zzfan", Cmd: &configuration.CmdFanConfig{
		SetPwm: &configuration.ExecConfig{Exec: tool, Args: []string{"%pwm%"}},
		GetPwm: &configuration.ExecConfig{Exec: tool},
		GetRpm: &configuration.ExecConfig{Exec: tool},
	}}}
	first := zzv.Choice("firstCall", 3)
	switch first {
	case 0:
		_ = fan.SetPwm(100)
	case 1:
		_, _ = fan.GetPwm()
	default:
		_, _ = fan.GetRpm()
	}
	zzv.ExecScenario(tool, zzv.ExecOK, "120")
	var err error
	v := 120
	switch zzv.Choice("secondCall", 3) {
	case 0:
		err = fan.SetPwm(120)
	case 1:
		v, err = fan.GetPwm()
	default:
		v, err = fan.GetRpm()
	}
	zzv.Assert(err == nil, "T5.healthy_call_after_any_outcome_succeeds")
	zzv.Assert(v == 120, "T5.healthy_call_reads_the_value")
}
