package persistence

import (
	"errors"
	"os"

	"github.com/markusressel/fan2go/internal/zzv"
)

//zzv:bound K1 = the real persistence layer (Save/Load/Delete of RPM-curve data and PWM maps, each opening and closing the database) on a database holding any subset of the six entries of three fans (64 pre-states, built with the real save functions, contents symbolic), then one operation - save (new symbolic content), load or delete, of either kind, or a save of the empty map, on any of the three fans (24 operations): the operation reports what the picture says (load: the stored content or 'not found'; delete: no error whether or not the entry exists; save: no error), and afterwards all six entries read back as the picture says: the touched entry changed as stated, the other five unchanged. One step from every reachable pre-state, so sequences of any length are covered for this shape of database
//zzv:bound K2 = an undecodable value under any one of the six keys (others valid): loading it reports no data and no crash, a second load reports 'not found' (the entry was discarded), the other five entries are unchanged, and a save over it works
//zzv:outside the fidelity of the JSON encoding itself (encoding/json round-trips map[int]int and map[int]float64: assumed, Marshal/Unmarshal are an opaque blob model), so negative keys, fractional and huge values add nothing here; durability and atomicity under SIGKILL (bbolt's own guarantee: the model commits a transaction entirely or not at all by construction); more than three fans; bbolt.Open failures (lock timeout, unreadable file)
//zzv:stub go.etcd.io/bbolt is replaced by a model of its documented API contract (named buckets, ordered byte-string keys, Update all-or-nothing, Cursor.Seek = first key >= argument); encoding/json.Marshal / Unmarshal of maps are an opaque blob that decodes to an equal map of the same type and nothing else decodes
//zzv:opts loopbound=400

func zzOperation(w *zzWorld, label string) {
	fan := zzv.Choice("fan", 3)
	switch zzv.Choice("operation", 8) {
	case 6:
		zzv.Assert(w.saveEmptyData(fan) == nil, label+".save_empty_data_succeeds")
	case 7:
		zzv.Assert(w.saveEmptyMap(fan) == nil, label+".save_empty_map_succeeds")
	case 0:
		zzv.Assert(w.saveData(fan, zzTag("newData")) == nil, label+".save_data_succeeds")
	case 1:
		zzv.Assert(w.saveMap(fan, zzTag("newMap")) == nil, label+".save_map_succeeds")
	case 2:
		err := w.p.DeleteFanPwmData(zzFan(zzIds[fan], nil))
		zzv.Assert(err == nil, label+".delete_data_is_idempotent")
		w.hasData[fan] = false
	case 3:
		err := w.p.DeleteFanPwmMap(zzIds[fan])
		zzv.Assert(err == nil, label+".delete_map_is_idempotent")
		w.hasMap[fan] = false
	case 4:
		_, err := w.p.LoadFanPwmData(zzFan(zzIds[fan], nil))
		zzv.Assert((err == nil) == w.hasData[fan], label+".load_data_reports_presence")
	default:
		_, err := w.p.LoadFanPwmMap(zzIds[fan])
		zzv.Assert((err == nil) == w.hasMap[fan], label+".load_map_reports_presence")
	}
}

func ZZ_C14_K1_OneOperationFromAnyState() {
	zzv.SetMerge(false)
	w := zzNewWorld(zzv.Choice("present", 64))
	zzOperation(w, "K1")
	w.zzReadBack("K1")
}

func ZZ_C14_K2_CorruptEntryIsDiscarded() {
	zzv.SetMerge(false)
	w := zzNewWorld(63)
	fan := zzv.Choice("fan", 3)
	if zzv.Choice("kind", 2) == 0 {
		zzPutRaw(w.path, BucketFans, zzIds[fan])
		d, err := w.p.LoadFanPwmData(zzFan(zzIds[fan], nil))
		zzv.Assert(zzv.And(err == nil, len(d) == 0), "K2.corrupt_data_loads_as_nothing")
		_, err = w.p.LoadFanPwmData(zzFan(zzIds[fan], nil))
		zzv.Assert(errors.Is(err, os.ErrNotExist), "K2.corrupt_data_was_discarded")
		w.hasData[fan] = false
		if zzv.Choice("saveOver", 2) == 1 {
			zzv.Assert(w.saveData(fan, zzTag("newData")) == nil, "K2.save_over_discarded_data")
		}
	} else {
		zzPutRaw(w.path, BucketFanPwmMap, zzIds[fan])
		m, err := w.p.LoadFanPwmMap(zzIds[fan])
		zzv.Assert(zzv.And(err == nil, len(m) == 0), "K2.corrupt_map_loads_as_nothing")
		_, err = w.p.LoadFanPwmMap(zzIds[fan])
		zzv.Assert(errors.Is(err, os.ErrNotExist), "K2.corrupt_map_was_discarded")
		w.hasMap[fan] = false
		if zzv.Choice("saveOver", 2) == 1 {
			zzv.Assert(w.saveMap(fan, zzTag("newMap")) == nil, "K2.save_over_discarded_map")
		}
	}
	w.zzReadBack("K2")
}
