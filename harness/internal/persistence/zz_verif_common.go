package persistence

import (
	"errors"
	"os"

	"github.com/markusressel/fan2go/internal/configuration"
	"github.com/markusressel/fan2go/internal/fans"
	"github.com/markusressel/fan2go/internal/zzv"
	bolt "go.etcd.io/bbolt"
)

// three fan ids in an order that makes "the next greater key" a different fan for each of them
var zzIds = []string{"case_front", "case_rear", "cpu"}

const (
	zzAbsent  = 0
	zzValid   = 1
	zzCorrupt = 2
)

// zzWorld is the harness's own picture of the database: per fan and kind, whether an entry exists
// and which (symbolic) number it carries.
type zzWorld struct {
	p       Persistence
	path    string
	dataTag [3]int // RPM-curve data of fan i is {tag: float64(tag)}
	mapTag  [3]int // PWM map of fan i is {0: 0, 255: tag}
	hasData [3]bool
	hasMap  [3]bool
	// the stored value is the empty map (a legitimate value: "an empty map" is not "no entry")
	emptyData [3]bool
	emptyMap  [3]bool
}

func zzFan(id string, data *map[int]float64) fans.Fan {
	return &fans.HwMonFan{Config: configuration.FanConfig{ID: id, HwMon: &configuration.HwMonFanConfig{}}, FanCurveData: data}
}

func (w *zzWorld) saveData(i int, tag int) error {
	m := map[int]float64{tag: float64(tag)}
	err := w.p.SaveFanPwmData(zzFan(zzIds[i], &m))
	if err == nil {
		w.hasData[i], w.dataTag[i], w.emptyData[i] = true, tag, false
	}
	return err
}

func (w *zzWorld) saveEmptyData(i int) error {
	m := map[int]float64{}
	err := w.p.SaveFanPwmData(zzFan(zzIds[i], &m))
	if err == nil {
		w.hasData[i], w.emptyData[i] = true, true
	}
	return err
}

func (w *zzWorld) saveEmptyMap(i int) error {
	err := w.p.SaveFanPwmMap(zzIds[i], map[int]int{})
	if err == nil {
		w.hasMap[i], w.emptyMap[i] = true, true
	}
	return err
}

func (w *zzWorld) saveMap(i int, tag int) error {
	err := w.p.SaveFanPwmMap(zzIds[i], map[int]int{0: 0, 255: tag})
	if err == nil {
		w.hasMap[i], w.mapTag[i], w.emptyMap[i] = true, tag, false
	}
	return err
}

// zzPutRaw stores an undecodable value directly (what a damaged or foreign database would hold).
func zzPutRaw(path, bucket, key string) {
	db, err := bolt.Open(path, 0600, nil)
	if err != nil {
		panic(err)
	}
	err = db.Update(func(tx *bolt.Tx) error {
		b, err := tx.CreateBucketIfNotExists([]byte(bucket))
		if err != nil {
			return err
		}
		return b.Put([]byte(key), []byte("\x00not json"))
	})
	_ = db.Close()
	if err != nil {
		panic(err)
	}
}

func zzTag(name string) int {
	t := zzv.Int(name)
	zzv.Assume(t >= 1)
	zzv.Assume(t <= 255)
	return t
}

// zzNewWorld builds a database in which each of the six entries is absent or valid as the mask
// says, through the real save functions.
func zzNewWorld(mask int) *zzWorld {
	path := zzv.TempDir("db") + "/fan2go.db"
	w := &zzWorld{p: NewPersistence(path), path: path}
	if err := w.p.Init(); err != nil {
		panic(err)
	}
	for i := 0; i < 3; i++ {
		if mask&(1<<(2*i)) != 0 {
			if err := w.saveData(i, zzTag("data."+zzIds[i])); err != nil {
				panic(err)
			}
		}
		if mask&(1<<(2*i+1)) != 0 {
			if err := w.saveMap(i, zzTag("map."+zzIds[i])); err != nil {
				panic(err)
			}
		}
	}
	return w
}

// zzReadBack loads all six entries and compares them with the picture; label prefixes the
// obligations.
func (w *zzWorld) zzReadBack(label string) {
	for i := 0; i < 3; i++ {
		d, err := w.p.LoadFanPwmData(zzFan(zzIds[i], nil))
		if w.hasData[i] {
			zzv.Assert(err == nil, label+".stored_data_loads")
			if err == nil && w.emptyData[i] {
				zzv.Assert(len(d) == 0, label+".stored_empty_data_unchanged")
			} else if err == nil {
				v, ok := d[w.dataTag[i]]
				zzv.Assert(zzv.And(len(d) == 1, zzv.And(ok, v == float64(w.dataTag[i]))), label+".stored_data_unchanged")
			}
		} else {
			zzv.Assert(errors.Is(err, os.ErrNotExist), label+".missing_data_is_not_found")
		}
		m, err := w.p.LoadFanPwmMap(zzIds[i])
		if w.hasMap[i] {
			zzv.Assert(err == nil, label+".stored_map_loads")
			if err == nil && w.emptyMap[i] {
				zzv.Assert(len(m) == 0, label+".stored_empty_map_unchanged")
			} else if err == nil {
				zzv.Assert(zzv.And(len(m) == 2, zzv.And(m[0] == 0, m[255] == w.mapTag[i])), label+".stored_map_unchanged")
			}
		} else {
			zzv.Assert(errors.Is(err, os.ErrNotExist), label+".missing_map_is_not_found")
		}
	}
}
