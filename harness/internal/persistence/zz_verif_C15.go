package persistence

import (
	"github.com/markusressel/fan2go/internal/zzv"
)

//zzv:bound U5 = what `fan reset` / `fan init` do to the real database (DeleteFanPwmData + DeleteFanPwmMap of the named fan, real persistence layer on the bbolt model) from each of the 64 pre-states of three fans: the named fan's two entries are gone, every other entry still loads unchanged

// U5 ("... until the user discards it with `fan reset` or `fan init`"): what those commands do to
// the real database - DeleteFanPwmData + DeleteFanPwmMap for the one fan named - from any
// pre-state of three fans: that fan's two entries are gone, every other fan's stored
// characterisation is still there, so only the fan that was reset is analysed again.
func ZZ_C15_U5_ResetDiscardsOnlyThatFan() {
	zzv.SetMerge(false)
	w := zzNewWorld(zzv.Choice("present", 64))
	fan := zzv.Choice("fan", 3)
	zzv.Assert(w.p.DeleteFanPwmData(zzFan(zzIds[fan], nil)) == nil, "U5.reset_deletes_data")
	zzv.Assert(w.p.DeleteFanPwmMap(zzIds[fan]) == nil, "U5.reset_deletes_map")
	w.hasData[fan], w.hasMap[fan] = false, false
	w.zzReadBack("U5")
}
