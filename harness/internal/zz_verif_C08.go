package internal

import (
	"github.com/markusressel/fan2go/internal/configuration"
	"github.com/markusressel/fan2go/internal/sensors"
	"github.com/markusressel/fan2go/internal/zzv"
)

//zzv:bound S1 = one real poll (updateSensor -> Sensor.GetValue -> UpdateSimpleMovingAvg) of a hwmon / file / cmd sensor: previous smoothed value any float64 with |avg| <= 2^20, reading any integer |x| <= 2^20, window n in {1,2,10} (thorough 1..32): min(avg,x) <= avg' <= max(avg,x); by induction the smoothed value stays within the hull of the initial value and all readings
//zzv:bound S2 = geometric approach as absolute rungs (ratio form does not finish): |avg-c| <= d implies |avg'-c| <= d*(1-1/n)*(1+1e-6) for a constant integer reading c (|c| <= 2^20), d in {2^20, 1000, 1} and n in {2,10} quick; full ladders d = 2^20 .. 1 for n in {2,10} thorough
//zzv:bound S3 = a poll whose read fails (file missing / unreadable, command exits non-zero with or without a number on its output, non-numeric text) returns an error and leaves the smoothed value bit-identical, for each sensor backend
//zzv:bound S3h = three consecutive polls of one sensor object (each backend, window 1 / 2 / 10), each poll independently a successful read (any integer up to 2^20 in magnitude), a missing file or non-numeric content: every failed poll returns an error and leaves the smoothed value bit-identical wherever it sits in the sequence
//zzv:bound S4 = a poll whose read yields NaN or +-Inf (cmd sensor printing nan/inf) leaves the smoothed value unchanged
//zzv:outside windows above 32; magnitudes above 2^20 milli-degrees (1048 degrees); timing of polls; the initial seeding read
//zzv:opts fptimeout_quick=240

const (
	zzSensHwmon = 0
	zzSensFile  = 1
	zzSensCmd   = 2
)

func zzNewSensor(kind int, path string) sensors.Sensor {
	var cfg configuration.SensorConfig
	switch kind {
	case zzSensHwmon:
		cfg = configuration.SensorConfig{ID: "zzsensor", HwMon: &configuration.HwMonSensorConfig{Platform: "zz", Index: 1, TempInput: path}}
	case zzSensFile:
		cfg = configuration.SensorConfig{ID: "zzsensor", File: &configuration.FileSensorConfig{Path: path}}
	default:
		cfg = configuration.SensorConfig{ID: "zzsensor", Cmd: &configuration.CmdSensorConfig{Exec: "/bin/cat", Args: []string{path}}}
	}
	s, err := sensors.NewSensor(cfg)
	if err != nil {
		panic(err)
	}
	return s
}

func zzWindow() int {
	if zzv.Thorough() {
		return zzv.Choice("window", 32) + 1
	}
	ns := []int{1, 2, 10}
	return ns[zzv.Choice("window", 3)]
}

func zzBoundedAvg(name string) float64 {
	a := zzv.Float64(name)
	zzv.Assume(a >= -1048576.0)
	zzv.Assume(a <= 1048576.0)
	return a
}

func ZZ_C08_S1_Hull() {
	kind := zzv.Choice("kind", 3)
	n := zzWindow()
	configuration.CurrentConfig.TempRollingWindowSize = n
	path := zzv.TempDir("sensor") + "/temp1_input"
	x := zzv.Int("reading")
	zzv.Assume(x >= -(1 << 20))
	zzv.Assume(x <= 1<<20)
	zzv.FilePut(path, true, x)
	s := zzNewSensor(kind, path)
	avg := zzBoundedAvg("avg")
	s.SetMovingAvg(avg)
	err := updateSensor(s)
	after := s.GetMovingAvg()
	zzv.RecordF("avgAfter", after)
	zzv.Assert(err == nil, "S1.successful_read_is_no_error")
	fx := float64(x)
	lo := zzv.IteF(avg < fx, avg, fx)
	hi := zzv.IteF(avg < fx, fx, avg)
	zzv.Assert(zzv.And(lo <= after, after <= hi), "S1.within_hull_of_previous_and_reading")
}

func zzRung(n int, d float64) {
	configuration.CurrentConfig.TempRollingWindowSize = n
	path := zzv.TempDir("sensor") + "/temp1_input"
	c := zzv.Int("reading")
	zzv.Assume(c >= -(1 << 20))
	zzv.Assume(c <= 1<<20)
	zzv.FilePut(path, true, c)
	s := zzNewSensor(zzSensHwmon, path)
	avg := zzv.Float64("avg")
	fc := float64(c)
	zzv.Assume(avg-fc <= d)
	zzv.Assume(fc-avg <= d)
	s.SetMovingAvg(avg)
	_ = updateSensor(s)
	after := s.GetMovingAvg()
	zzv.RecordF("avgAfter", after)
	d2 := d * (1.0 - 1.0/float64(n)) * (1.0 + 1e-6)
	zzv.Assert(zzv.And(after-fc <= d2, fc-after <= d2), "S2.rung_distance_shrinks_geometrically")
}

func ZZ_C08_S2_Rungs() {
	n := []int{2, 10}[zzv.Choice("window", 2)]
	if !zzv.Thorough() {
		zzRung(n, []float64{1048576, 1000, 1}[zzv.Choice("distance", 3)])
		return
	}
	// full ladder from 2^20 down to 1
	d := 1048576.0
	k := 0
	for d > 1 {
		d = d * (1.0 - 1.0/float64(n)) * (1.0 + 1e-6)
		k++
	}
	j := zzv.Choice("rung", k)
	d = 1048576.0
	for i := 0; i < j; i++ {
		d = d * (1.0 - 1.0/float64(n)) * (1.0 + 1e-6)
	}
	zzRung(n, d)
}

func ZZ_C08_S3_FailedReadIgnored() {
	kind := zzv.Choice("kind", 3)
	configuration.CurrentConfig.TempRollingWindowSize = zzWindow()
	path := zzv.TempDir("sensor") + "/temp1_input"
	switch zzv.Choice("fault", 2) {
	case 0:
		zzv.FilePut(path, false, 0) // missing / unreadable, command exits non-zero
	default:
		zzv.FileGarbage(path) // non-numeric text
	}
	s := zzNewSensor(kind, path)
	avg := zzBoundedAvg("avg")
	s.SetMovingAvg(avg)
	err := updateSensor(s)
	after := s.GetMovingAvg()
	zzv.RecordF("avgAfter", after)
	zzv.Assert(err != nil, "S3.failed_read_is_reported")
	zzv.Assert(after == avg, "S3.failed_read_leaves_average_unchanged")
}

func ZZ_C08_S4_NonFiniteIgnored() {
	configuration.CurrentConfig.TempRollingWindowSize = zzWindow()
	path := zzv.TempDir("sensor") + "/temp1_input"
	v := zzv.Float64("printed")
	zzv.Assume(zzv.Not(zzv.IsFinite(v)))
	zzv.FilePutFloat(path, v)
	s := zzNewSensor(zzSensCmd, path)
	avg := zzBoundedAvg("avg")
	s.SetMovingAvg(avg)
	_ = updateSensor(s)
	after := s.GetMovingAvg()
	zzv.RecordF("avgAfter", after)
	zzv.Assert(after == avg, "S4.non_finite_reading_leaves_average_unchanged")
}

// a cmd sensor whose command exits non-zero (possibly after printing a number or anything else):
// the real SafeCmdExecution + CmdSensor.GetValue + updateSensor must treat the poll as failed
func ZZ_C08_S3_FailingCommandIgnored() {
	zzv.RealCommands()
	configuration.CurrentConfig.TempRollingWindowSize = zzWindow()
	tool := zzv.TempDir("sensor") + "/read_temp"
	texts := []string{"", "0", "41000", "41000\n", "4", "garbage"}
	zzv.ExecScenarioStderr(tool, zzv.ExecExitError, texts[zzv.Choice("printed", len(texts))], "sensor bus error\n")
	s, err := sensors.NewSensor(configuration.SensorConfig{ID: "zzsensor", Cmd: &configuration.CmdSensorConfig{Exec: tool}})
	if err != nil {
		panic(err)
	}
	avg := zzBoundedAvg("avg")
	s.SetMovingAvg(avg)
	uerr := updateSensor(s)
	after := s.GetMovingAvg()
	zzv.RecordF("avgAfter", after)
	zzv.Assert(uerr != nil, "S3.failing_command_is_reported")
	zzv.Assert(after == avg, "S3.failing_command_leaves_average_unchanged")
}

// S3h: fault placements within a sequence ("all placements of read faults within those sequences"):
// three consecutive polls of the same sensor object, each one a successful read, a missing /
// unreadable file or non-numeric content, chosen independently. The single-poll harnesses start
// every poll from a fresh sensor; whatever a sensor remembers between polls is only reachable by
// polling it repeatedly.
func ZZ_C08_S3h_FaultHistories() {
	kind := zzv.Choice("kind", 3)
	configuration.CurrentConfig.TempRollingWindowSize = []int{1, 2, 10}[zzv.Choice("window", 3)]
	path := zzv.TempDir("sensor") + "/temp1_input"
	zzv.FilePut(path, true, 40000)
	s := zzNewSensor(kind, path)
	s.SetMovingAvg(zzBoundedAvg("avg"))
	for _, tag := range []string{"1", "2", "3"} {
		before := s.GetMovingAvg()
		what := zzv.Choice("poll"+tag, 3)
		switch what {
		case 0:
			x := zzv.Int("reading" + tag)
			zzv.Assume(x >= -(1 << 20))
			zzv.Assume(x <= 1<<20)
			zzv.FilePut(path, true, x)
		case 1:
			zzv.FilePut(path, false, 0)
		default:
			zzv.FileGarbage(path)
		}
		err := updateSensor(s)
		after := s.GetMovingAvg()
		zzv.RecordF("avgAfter"+tag, after)
		if what == 0 {
			zzv.Assert(err == nil, "S3h.successful_read_is_no_error")
		} else {
			zzv.Assert(err != nil, "S3h.failed_read_is_reported")
			zzv.Assert(after == before, "S3h.failed_read_leaves_average_unchanged")
		}
	}
}
