package internal

import (
	"github.com/markusressel/fan2go/internal/configuration"
	"github.com/markusressel/fan2go/internal/sensors"
	"github.com/markusressel/fan2go/internal/zzv"
)

// T3 (sensor side): one poll of a cmd sensor through the monitor path.
func ZZ_C19_T3_SensorCommandCalls() {
	zzv.RealCommands()
	configuration.CurrentConfig.TempRollingWindowSize = 10
	tool := zzv.TempDir("exec") + "/read_temp"
	scenario := zzv.Choice("scenario", 7)
	texts := []string{"42", "42\n", "", "not a number", "nan"}
	zzv.ExecScenario(tool, scenario, texts[zzv.Choice("text", len(texts))])
	s, err := sensors.NewSensor(configuration.SensorConfig{ID: "zzsensor", Cmd: &configuration.CmdSensorConfig{Exec: tool}})
	if err != nil {
		panic(err)
	}
	s.SetMovingAvg(50000)
	uerr := updateSensor(s)
	zzv.RecordB("error", uerr != nil)
	zzv.Record("starts", zzv.ExecStarts(tool))
	zzv.Assert(zzv.ExecStarts(tool) <= 1, "T3.one_poll_starts_the_command_at_most_once")
	if scenario != zzv.ExecOK && scenario != zzv.ExecGrandchild {
		zzv.Assert(uerr != nil, "T3.failed_command_is_an_error")
		zzv.Assert(s.GetMovingAvg() == 50000, "T3.failed_command_leaves_average_unchanged")
	}
}
