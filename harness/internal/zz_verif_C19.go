package internal

import (
	"github.com/markusressel/fan2go/internal/configuration"
	"github.com/markusressel/fan2go/internal/sensors"
	"github.com/markusressel/fan2go/internal/zzv"
)

// T3 (sensor side): one poll of a cmd sensor through the monitor path.
func ZZ_C19_T3_SensorCommandCalls() {
	zzv.RealCommands()
	configuration.CurrentConfig.TempRollingWindowSize = 10
	tool := zzv.TempDir("exec") + "/read_temp"
	scenario := zzv.Choice("scenario", 7)
	texts := []string{"42", "42\n", "", "not a number", "nan"}
	zzv.ExecScenario(tool, scenario, texts[zzv.Choice("text", len(texts))])
	s, err := sensors.NewSensor(configuration.SensorConfig{ID: "zzsensor", Cmd: &configuration.CmdSensorConfig{Exec: tool}})
	if err != nil {
		panic(err)
	}
	s.SetMovingAvg(50000)
	uerr := updateSensor(s)
	zzv.RecordB("error", uerr != nil)
	zzv.Record("starts", zzv.ExecStarts(tool))
	zzv.Assert(zzv.ExecStarts(tool) <= 1, "T3.one_poll_starts_the_command_at_most_once")
	if scenario != zzv.ExecOK && scenario != zzv.ExecGrandchild {
		zzv.Assert(uerr != nil, "T3.failed_command_is_an_error")
		zzv.Assert(s.GetMovingAvg() == 50000, "T3.failed_command_leaves_average_unchanged")
	}
}

// T5 (history): two polls of the same cmd sensor object, the first with any outcome, the second a
// healthy command: whatever the first poll left behind (locks, flags, cached state), the second one
// returns and succeeds - "never blocks the sensor monitor" is about every later poll too.
func ZZ_C19_T5_PollAfterAnyOutcome() {
	zzv.RealCommands()
	configuration.CurrentConfig.TempRollingWindowSize = 10
	tool := zzv.TempDir("exec") + "/read_temp"
	texts := []string{"42000", "", "N/A", "nan"}
	zzv.ExecScenario(tool, zzv.Choice("firstScenario", 7), texts[zzv.Choice("firstText", len(texts))])
	s, err := sensors.NewSensor(configuration.SensorConfig{ID: "zzsensor", Cmd: &configuration.CmdSensorConfig{Exec: tool}})
	if err != nil {
		panic(err)
	}
	s.SetMovingAvg(50000)
	_ = updateSensor(s)
	zzv.ExecScenario(tool, zzv.ExecOK, "43000")
	v, verr := s.GetValue()
	zzv.RecordB("secondPollFailed", verr != nil)
	zzv.Assert(verr == nil, "T5.healthy_poll_after_any_outcome_succeeds")
	zzv.Assert(v == 43000, "T5.healthy_poll_reads_the_value")
}
