package hwmon

import (
	"fmt"

	"github.com/markusressel/fan2go/internal/configuration"
	"github.com/markusressel/fan2go/internal/fans"
	"github.com/markusressel/fan2go/internal/zzv"
	"github.com/md14454/gosensors"
)

//zzv:bound H1 = real UpdateFanConfigFromHwMonControllers on 3 chips in any of the 6 enumeration orders, each chip with 0..3 fans on arbitrary ascending channels (1..64) numbered by position, a platform pattern matching exactly one chip, selector = index (1..4) or rpmChannel (1..64), pwmChannel explicit (1..64) or defaulted: on success the entry is bound to the selected device of the named chip (sysfs path, rpm channel, pwm channel = explicit or the device's own)
//zzv:bound H2 = same: the three derived paths are <chip path>/fan<rpm>_input, /pwm<pwm> and /pwm<pwm>_enable (template strings with symbolic channel numbers)
//zzv:bound H3 = same: when the named chip has no such device the call returns an error, never panics and leaves the entry unbound (never another chip's device)
//zzv:outside libsensors itself (GetChips and the feature lists come through cgo; GetFans / GetTempSensors run on the pure-Go stand-in chip, bounds D and DS); patterns matching several chips; the meaning of regular expressions beyond the concrete patterns used

type zzChip struct {
	platform string
	path     string
}

var zzChips = []zzChip{{"nct6798", "/sys/class/hwmon/hwmon2"}, {"amdgpu", "/sys/class/hwmon/hwmon4"}, {"it8688", "/sys/class/hwmon/hwmon7"}}

var zzPerms = [][3]int{{0, 1, 2}, {0, 2, 1}, {1, 0, 2}, {1, 2, 0}, {2, 0, 1}, {2, 1, 0}}

// zzControllers builds the chips with symbolic fan channels; chans[c] lists chip c's channels.
func zzControllers() (list []*HwMonController, chans [3][]int) {
	perm := zzPerms[zzv.Choice("order", len(zzPerms))]
	byChip := make([]*HwMonController, 3)
	for c := 0; c < 3; c++ {
		n := zzv.Choice(fmt.Sprintf("fans%d", c), 4)
		ctrl := &HwMonController{Name: zzChips[c].platform, Platform: zzChips[c].platform, Path: zzChips[c].path}
		for i := 0; i < n; i++ {
			ch := zzv.Int(fmt.Sprintf("chip%d.channel", c))
			zzv.Assume(ch >= 1)
			zzv.Assume(ch <= 64)
			if i > 0 {
				zzv.Assume(chans[c][i-1] < ch)
			}
			chans[c] = append(chans[c], ch)
			hc := &configuration.HwMonFanConfig{Index: i + 1, RpmChannel: ch, PwmChannel: ch, SysfsPath: zzChips[c].path}
			setFanConfigPaths(hc)
			ctrl.Fans = append(ctrl.Fans, fans.HwMonFan{Label: "f", Index: i + 1, Config: configuration.FanConfig{ID: "f", HwMon: hc}})
		}
		byChip[c] = ctrl
	}
	for _, c := range perm {
		list = append(list, byChip[c])
	}
	return
}

func ZZ_C17_H_FanBinding() {
	list, chans := zzControllers()
	target := zzv.Choice("namedChip", 3)
	cfg := configuration.FanConfig{ID: "zzfan", HwMon: &configuration.HwMonFanConfig{Platform: zzChips[target].platform}}
	byIndex := zzv.Choice("selectBy", 2) == 0
	sel := zzv.Int("selector")
	zzv.Assume(sel >= 1)
	if byIndex {
		zzv.Assume(sel <= 4)
		cfg.HwMon.Index = sel
	} else {
		zzv.Assume(sel <= 64)
		cfg.HwMon.RpmChannel = sel
	}
	pwmCh := zzv.Int("pwmChannel")
	zzv.Assume(pwmCh >= 0)
	zzv.Assume(pwmCh <= 64)
	cfg.HwMon.PwmChannel = pwmCh

	err := UpdateFanConfigFromHwMonControllers(list, &cfg)

	// oracle: the device of the named chip
	exists := false
	wantRpm := 0
	for i, ch := range chans[target] {
		hit := false
		if byIndex {
			hit = sel == i+1
		} else {
			hit = sel == ch
		}
		wantRpm = zzv.IteInt(hit, ch, wantRpm)
		exists = zzv.Or(exists, hit)
	}
	zzv.RecordB("bound", err == nil)
	zzv.Assert((err == nil) == exists, "H3.error_iff_no_such_device")
	if err != nil {
		zzv.Assert(cfg.HwMon.SysfsPath == "", "H3.entry_left_unbound")
		return
	}
	wantPwm := zzv.IteInt(pwmCh == 0, wantRpm, pwmCh)
	zzv.Record("rpmChannel", cfg.HwMon.RpmChannel)
	zzv.Record("pwmChannel", cfg.HwMon.PwmChannel)
	zzv.Assert(cfg.HwMon.SysfsPath == zzChips[target].path, "H1.bound_to_named_chip")
	zzv.Assert(cfg.HwMon.RpmChannel == wantRpm, "H1.rpm_channel_of_selected_device")
	zzv.Assert(cfg.HwMon.PwmChannel == wantPwm, "H1.pwm_channel_explicit_or_defaulted")
	base := zzChips[target].path
	zzv.Assert(cfg.HwMon.RpmInputPath == fmt.Sprintf("%s/fan%d_input", base, wantRpm), "H2.rpm_input_path")
	zzv.Assert(cfg.HwMon.PwmPath == fmt.Sprintf("%s/pwm%d", base, wantPwm), "H2.pwm_path")
	zzv.Assert(cfg.HwMon.PwmEnablePath == fmt.Sprintf("%s/pwm%d_enable", base, wantPwm), "H2.pwm_enable_path")
}

//zzv:bound D = discovery + binding composed: real GetFans on a chip whose fan features are any subset of fan1..fan6 (plus a temperature feature and a fan feature without an input), then the real UpdateFanConfigFromHwMonControllers with a symbolic selector (index 1..6 or rpmChannel 1..6) and a defaulted or explicit pwm channel: the device's channel is parsed from the feature name, the index is its position among the chip's fans, a defaulted pwm channel is the rpm channel, and the derived paths carry those numbers
//zzv:stub gosensors.Chip is the pure-Go stand-in with an explicit feature list (the cgo library itself is outside)

func ZZ_C17_D_DiscoveryThenBinding() {
	mask := zzv.Choice("fanFeatures", 64)
	chip := gosensors.Chip{Prefix: "nct6798", Path: "/sys/class/hwmon/hwmon2"}
	var chans []int
	chip.Features = append(chip.Features, gosensors.Feature{Name: "temp1", Type: gosensors.FeatureTypeTemp,
		Subs: []gosensors.SubFeature{{Name: "temp1_input", Type: gosensors.SubFeatureTypeTempInput}}})
	for ch := 1; ch <= 6; ch++ {
		if mask&(1<<(ch-1)) == 0 {
			continue
		}
		chans = append(chans, ch)
		chip.Features = append(chip.Features, gosensors.Feature{Name: fmt.Sprintf("fan%d", ch), Type: gosensors.FeatureTypeFan,
			Subs: []gosensors.SubFeature{{Name: fmt.Sprintf("fan%d_input", ch), Type: gosensors.SubFeatureTypeFanInput, Value: 1000}}})
	}
	chip.Features = append(chip.Features, gosensors.Feature{Name: "fan9", Type: gosensors.FeatureTypeFan,
		Subs: []gosensors.SubFeature{{Name: "fan9_min", Type: gosensors.SubFeatureTypeFanMin}}})
	found := GetFans(chip)
	zzv.Assert(len(found) == len(chans), "D.one_fan_per_fan_input")
	if len(found) != len(chans) {
		return
	}
	ctrl := &HwMonController{Name: "nct6798", Platform: "nct6798", Path: chip.Path, Fans: found}
	cfg := configuration.FanConfig{ID: "zzfan", HwMon: &configuration.HwMonFanConfig{Platform: "nct6798"}}
	byIndex := zzv.Choice("selectBy", 2) == 0
	sel := zzv.Int("selector")
	zzv.Assume(sel >= 1)
	zzv.Assume(sel <= 6)
	if byIndex {
		cfg.HwMon.Index = sel
	} else {
		cfg.HwMon.RpmChannel = sel
	}
	pwmCh := zzv.Int("pwmChannel")
	zzv.Assume(pwmCh >= 0)
	zzv.Assume(pwmCh <= 6)
	cfg.HwMon.PwmChannel = pwmCh
	err := UpdateFanConfigFromHwMonControllers([]*HwMonController{ctrl}, &cfg)
	exists := false
	wantRpm := 0
	for i, ch := range chans {
		hit := false
		if byIndex {
			hit = sel == i+1
		} else {
			hit = sel == ch
		}
		wantRpm = zzv.IteInt(hit, ch, wantRpm)
		exists = zzv.Or(exists, hit)
	}
	zzv.Assert((err == nil) == exists, "D.error_iff_no_such_device")
	if err != nil {
		return
	}
	wantPwm := zzv.IteInt(pwmCh == 0, wantRpm, pwmCh)
	zzv.Record("rpmChannel", cfg.HwMon.RpmChannel)
	zzv.Record("pwmChannel", cfg.HwMon.PwmChannel)
	zzv.Assert(cfg.HwMon.RpmChannel == wantRpm, "D.rpm_channel_from_feature_name")
	zzv.Assert(cfg.HwMon.PwmChannel == wantPwm, "D.pwm_channel_defaults_to_rpm_channel")
	zzv.Assert(cfg.HwMon.PwmPath == fmt.Sprintf("%s/pwm%d", chip.Path, wantPwm), "D.pwm_path")
	zzv.Assert(cfg.HwMon.RpmInputPath == fmt.Sprintf("%s/fan%d_input", chip.Path, wantRpm), "D.rpm_input_path")
}

//zzv:bound DS = sensor discovery: real GetTempSensors on a chip whose temperature features temp1..temp4 are each absent, present with an input, or present without an input (only a max / crit sub-feature), interleaved with a fan feature: the result's keys are exactly 1..n for the n temperature inputs, key k is the k-th temperature input in enumeration order (its Index is k, its Input the path of that very tempN_input), so that `index: k` of a sensor entry means the k-th temperature input of the named chip and an index above n has no entry

func ZZ_C17_DS_SensorDiscovery() {
	chip := gosensors.Chip{Prefix: "nct6798", Path: "/sys/class/hwmon/hwmon2"}
	var inputs []int
	for ch := 1; ch <= 4; ch++ {
		switch zzv.Choice(fmt.Sprintf("temp%d", ch), 3) {
		case 1:
			inputs = append(inputs, ch)
			chip.Features = append(chip.Features, gosensors.Feature{Name: fmt.Sprintf("temp%d", ch), Type: gosensors.FeatureTypeTemp,
				Subs: []gosensors.SubFeature{
					{Name: fmt.Sprintf("temp%d_max", ch), Type: gosensors.SubFeatureTypeTempMax, Value: 90},
					{Name: fmt.Sprintf("temp%d_input", ch), Type: gosensors.SubFeatureTypeTempInput, Value: 40}}})
		case 2:
			chip.Features = append(chip.Features, gosensors.Feature{Name: fmt.Sprintf("temp%d", ch), Type: gosensors.FeatureTypeTemp,
				Subs: []gosensors.SubFeature{{Name: fmt.Sprintf("temp%d_max", ch), Type: gosensors.SubFeatureTypeTempMax, Value: 90}}})
		}
		if ch == 2 {
			chip.Features = append(chip.Features, gosensors.Feature{Name: "fan1", Type: gosensors.FeatureTypeFan,
				Subs: []gosensors.SubFeature{{Name: "fan1_input", Type: gosensors.SubFeatureTypeFanInput, Value: 1000}}})
		}
	}
	found := GetTempSensors(chip)
	zzv.Record("found", len(found))
	zzv.Assert(len(found) == len(inputs), "DS.one_sensor_per_temperature_input")
	for k, ch := range inputs {
		s, ok := found[k+1]
		zzv.Assert(ok, "DS.keys_count_temperature_inputs")
		if !ok {
			return
		}
		zzv.Assert(s.Index == k+1, "DS.index_is_the_key")
		zzv.Assert(s.Input == fmt.Sprintf("%s/temp%d_input", chip.Path, ch), "DS.key_k_is_the_kth_temperature_input")
	}
	_, extra := found[len(inputs)+1]
	zzv.Assert(!extra, "DS.no_entry_above_the_number_of_inputs")
}
