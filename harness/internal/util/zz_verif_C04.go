package util

import "github.com/markusressel/fan2go/internal/zzv"

//zzv:bound P0 = one real util.PidLoop.Loop step after the arming call, from any loop state (previous error and integral up to 1e6 in magnitude), any gains in [-10, 10], target and measurement any whole numbers 0..255, elapsed time any whole number of milliseconds from 50 ms to 2 s on the virtual clock: the output is exactly p*e + i*(integral + e*dt) + d*(e - previous e)/dt - the definition the settling behaviour of the default algorithm rests on, for every tick period the property names
//zzv:outside the closed loop over many cycles (settling time, wind-up after long idling): products of symbolic floats over an unbounded horizon; only this one-step definition and the range clamp (C01 E0) are decided for the PID algorithm
//zzv:stub time.Now is the virtual clock advanced by the harness

func ZZ_C04_P0_PidStepMatchesDefinition() {
	kp, ki, kd := zzv.Float64("p"), zzv.Float64("i"), zzv.Float64("d")
	zzv.Assume(zzv.And(kp >= -10, kp <= 10))
	zzv.Assume(zzv.And(ki >= -10, ki <= 10))
	zzv.Assume(zzv.And(kd >= -10, kd <= 10))
	l := NewPidLoop(kp, ki, kd)
	_ = l.Loop(0, 0) // the first call only arms the clock
	e0 := zzv.Float64("prevError")
	in := zzv.Float64("integral")
	zzv.Assume(zzv.And(e0 >= -1e6, e0 <= 1e6))
	zzv.Assume(zzv.And(in >= -1e6, in <= 1e6))
	l.ZZSetState(e0, in)
	ti := zzv.Int("target")
	mi := zzv.Int("measured")
	zzv.Assume(zzv.And(ti >= 0, ti <= 255))
	zzv.Assume(zzv.And(mi >= 0, mi <= 255))
	sec := zzv.Int("dtSec")
	ms := zzv.Int("dtMs")
	zzv.Assume(zzv.And(sec >= 0, sec <= 2))
	zzv.Assume(zzv.And(ms >= 0, ms <= 999))
	zzv.Assume(zzv.And(sec*1000+ms >= 50, sec*1000+ms <= 2000))
	dt := zzv.ClockStep(sec, ms)
	t, m := float64(ti), float64(mi)
	out := l.Loop(t, m)
	zzv.RecordF("output", out)
	e := t - m
	want := kp*e + ki*(in+e*dt) + kd*((e-e0)/dt)
	zzv.Assert(out == want, "P0.pid_step_is_the_textbook_definition")
}
