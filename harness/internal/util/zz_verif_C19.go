package util

import (
	"time"

	"github.com/markusressel/fan2go/internal/zzv"
)

//zzv:bound T1 = real SafeCmdExecution for every modelled outcome of starting a root-controlled command: exit 0, non-zero exit (*exec.ExitError, with an empty / unterminated / one-line / two-line stderr), cannot be started (*fs.PathError: not executable / bad format), killed at the deadline: the call does not panic
//zzv:bound T2 = same: the result is either (trimmed output, nil) or ("", non-nil error)
//zzv:bound T4 = same, plus the two outcomes in which a descendant of the command keeps the output pipe open beyond any bound (a grandchild left behind by a command that exits 0; the child of a shell that is killed at the deadline): the duration of the call is bounded. Decided on the documented contract of os/exec: Output() reads the pipes until EOF, unbounded, unless Cmd.WaitDelay is non-zero; natively the replay measures wall-clock time (limit 3 s for the 2 s timeout, descendants hold the pipe for 4 s)
//zzv:bound T5 = (packages fans and internal) two consecutive calls on the same CmdFan / CmdSensor object, the first with any of the seven outcomes and any output text, the second with a healthy command: the second call returns (no lock left held, no deadlock) and yields the value
//zzv:bound T3 = (packages fans and internal) the callers CmdFan.SetPwm / GetPwm / GetRpm and CmdSensor.GetValue for the same outcomes: no panic, a failed command is an error, and each call starts the command at most once (so the call's duration is at most one command duration)
//zzv:outside the actual wall-clock numbers (timeout + margin): the encoder has no time; what it decides is whether every wait in the call has a bound under the os/exec contract and how many commands one call starts. Scheduling delays, slow process start-up and the kernel are outside
//zzv:stub exec.Cmd.Output returns one of the outcomes above, chosen by the harness

var zzTexts = []string{"42", "42\n", "", "not a number", "nan"}

var zzStderrs = []string{"", "boom", "boom\n", "two\nlines\n"}

func ZZ_C19_T_Outcomes() {
	zzv.RealCommands()
	dir := zzv.TempDir("exec")
	path := dir + "/tool"
	scenario := zzv.Choice("scenario", 7)
	text := zzTexts[zzv.Choice("text", len(zzTexts))]
	stderr := zzStderrs[zzv.Choice("stderr", len(zzStderrs))]
	zzv.ExecScenarioStderr(path, scenario, text, stderr)
	t0 := zzv.StopwatchStart()
	out, err := SafeCmdExecution(path, []string{}, 2*time.Second)
	over := zzv.StopwatchOver(t0, 3000)
	zzv.RecordB("error", err != nil)
	zzv.RecordB("overran", over)
	zzv.Assert(!over, "T4.call_duration_is_bounded")
	if err != nil {
		zzv.Assert(out == "", "T2.error_comes_with_empty_output")
	} else {
		// a command that printed its output and exited 0 may count as a success even if it left a
		// grandchild behind, but then with its output
		zzv.Assert(zzv.Or(scenario == zzv.ExecOK, scenario == zzv.ExecGrandchild), "T2.only_a_clean_exit_is_success")
		zzv.Assert(out == zzTrim(text), "T2.output_is_trimmed")
	}
}
