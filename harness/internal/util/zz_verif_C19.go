package util

import (
	"time"

	"github.com/markusressel/fan2go/internal/zzv"
)

//zzv:bound T1 = real SafeCmdExecution for every modelled outcome of starting a root-controlled command: exit 0, non-zero exit (*exec.ExitError, with an empty / unterminated / one-line / two-line stderr), cannot be started (*fs.PathError: not executable / bad format), killed at the deadline: the call does not panic
//zzv:bound T2 = same: the result is either (trimmed output, nil) or ("", non-nil error)
//zzv:outside the wall-clock bound (timeout + margin) and grandchildren holding the output pipe open: properties of os/exec, pipes and the kernel that this encoder cannot express; callers in fans/cmd.go and sensors/cmd.go are covered by C09
//zzv:stub exec.Cmd.Output returns one of the outcomes above, chosen by the harness

var zzTexts = []string{"42", "42\n", "", "not a number", "nan"}

var zzStderrs = []string{"", "boom", "boom\n", "two\nlines\n"}

func ZZ_C19_T_Outcomes() {
	zzv.RealCommands()
	dir := zzv.TempDir("exec")
	path := dir + "/tool"
	scenario := zzv.Choice("scenario", 5)
	text := zzTexts[zzv.Choice("text", len(zzTexts))]
	stderr := zzStderrs[zzv.Choice("stderr", len(zzStderrs))]
	zzv.ExecScenarioStderr(path, scenario, text, stderr)
	out, err := SafeCmdExecution(path, []string{}, 2*time.Second)
	zzv.RecordB("error", err != nil)
	if err != nil {
		zzv.Assert(out == "", "T2.error_comes_with_empty_output")
	} else {
		zzv.Assert(scenario == zzv.ExecOK, "T2.only_a_clean_exit_is_success")
		zzv.Assert(out == zzTrim(text), "T2.output_is_trimmed")
	}
}
