package util

import (
	"time"

	"github.com/markusressel/fan2go/internal/zzv"
)

//zzv:bound A1 = real CheckFilePermissionsForExecution on an existing file with any owner uid and group gid (32 bit each) and any of the 512 permission modes, reached directly or through a symbolic link: accepted exactly when uid = 0 and not (gid != 0 and group-writable) and not other-writable
//zzv:bound A2 = real SafeCmdExecution called twice on the same path with independently chosen metadata (ownership/mode changed in between): each call starts the command exactly when that call's metadata passes A1; a rejected call returns a non-nil error and starts nothing
//zzv:bound A3 = a missing file is rejected with an error and nothing is started
//zzv:outside os.Stat failures other than 'does not exist' (then the real function dereferences a nil FileInfo; see C19); mode bits above 0777; the validateConfig call site (A4) is checked in package configuration
//zzv:stub os.Stat / filepath.EvalSymlinks return the metadata chosen by the harness; exec.Cmd.Output records that the command was started

func zzMeta(tag string) (uid, gid, mode uint32) {
	uid = zzv.Uint32(tag + "uid")
	gid = zzv.Uint32(tag + "gid")
	mode = zzv.Uint32(tag + "mode")
	zzv.Assume(mode <= 0o777)
	// 0xFFFFFFFF is (uid_t)-1, "leave unchanged" for chown(2), never a file's owner
	zzv.Assume(uid != 0xFFFFFFFF)
	zzv.Assume(gid != 0xFFFFFFFF)
	return
}

func zzSafe(uid, gid, mode uint32) bool {
	groupBad := zzv.And(gid != 0, mode&0o020 != 0)
	otherBad := mode&0o002 != 0
	return zzv.And(uid == 0, zzv.And(zzv.Not(groupBad), zzv.Not(otherBad)))
}

func ZZ_C18_A1_PermissionPredicate() {
	zzv.RealCommands()
	dir := zzv.TempDir("exec")
	target := dir + "/tool"
	uid, gid, mode := zzMeta("")
	zzv.StatPut(target, true, uid, gid, mode)
	path := target
	if zzv.Choice("viaSymlink", 2) == 1 {
		path = dir + "/link"
		zzv.SymlinkPut(path, target)
	}
	ok, err := CheckFilePermissionsForExecution(path)
	zzv.RecordB("accepted", ok)
	want := zzSafe(uid, gid, mode)
	zzv.Assert(ok == want, "A1.accepted_iff_root_controlled")
	zzv.Assert((err == nil) == want, "A1.error_iff_rejected")
}

func ZZ_C18_A2_CheckedBeforeEveryExecution() {
	zzv.RealCommands()
	dir := zzv.TempDir("exec")
	path := dir + "/tool"
	for i := 0; i < 2; i++ {
		uid, gid, mode := zzMeta("call.")
		zzv.StatPut(path, true, uid, gid, mode|0o100) // owner-executable so that an accepted command can start
		before := zzv.Executed(path)
		zzv.Assume(zzv.Not(before))
		_, err := SafeCmdExecution(path, []string{}, 2*time.Second)
		started := zzv.Executed(path)
		zzv.RecordB("started", started)
		want := zzSafe(uid, gid, mode|0o100)
		zzv.Assert(started == want, "A2.started_iff_this_calls_metadata_is_safe")
		zzv.Assert(zzv.Implies(zzv.Not(want), err != nil), "A2.rejected_call_returns_error")
		zzv.ResetExecuted(path)
	}
}

func ZZ_C18_A3_MissingFile() {
	zzv.RealCommands()
	dir := zzv.TempDir("exec")
	path := dir + "/tool"
	zzv.StatPut(path, false, 0, 0, 0)
	ok, err := CheckFilePermissionsForExecution(path)
	zzv.Assert(zzv.And(zzv.Not(ok), err != nil), "A3.missing_file_rejected")
	_, err2 := SafeCmdExecution(path, []string{}, 2*time.Second)
	zzv.Assert(err2 != nil, "A3.missing_file_not_executed_error")
	zzv.Assert(zzv.Not(zzv.Executed(path)), "A3.missing_file_not_executed")
}
