package util

import (
	"github.com/markusressel/fan2go/internal/zzv"
)

//zzv:bound F5 = the real ReadIntFromFile body (every hwmon / file sensor, RPM, PWM and mode read goes through it; the other C09 harnesses replace it by the device-file model) on a file holding one of 26 concrete texts: empty, whitespace only (blank, newline, tab, CR LF), integers with and without sign / leading zeros / surrounding whitespace, numbers followed by a unit or a second line, non-numeric text, hex / float / exponent spellings, out-of-range digits, a lone sign, non-ASCII digits, a NUL byte: never panics; text without any ASCII digit is an error; a plain decimal integer surrounded by whitespace reads as that integer
//zzv:outside file contents other than the 26 listed texts (the engine has no symbolic strings: the texts are concrete and the solver only chooses among them)
//zzv:stub os.ReadFile serves the text chosen by the harness

type zzText struct {
	text   string
	digits bool // contains an ASCII digit
	plain  bool // optional whitespace, optional sign, decimal digits, optional whitespace
	value  int
}

var zzTexts = []zzText{
	{"", false, false, 0},
	{" ", false, false, 0},
	{"\n", false, false, 0},
	{"\t\n", false, false, 0},
	{"\r\n", false, false, 0},
	{"  \n\n", false, false, 0},
	{"42", true, true, 42},
	{"42\n", true, true, 42},
	{" 42 \n", true, true, 42},
	{"\t7\r\n", true, true, 7},
	{"-7\n", true, true, -7},
	{"+7", true, true, 7},
	{"0\n", true, true, 0},
	{"007\n", true, true, 7},
	{"255\n", true, true, 255},
	{"4 2\n", true, false, 0},
	{"42 rpm\n", true, false, 0},
	{"42\n43\n", true, false, 0},
	{"abc\n", false, false, 0},
	{"0x1f\n", true, false, 0},
	{"3.5\n", true, false, 0},
	{"1e3\n", true, false, 0},
	{"99999999999999999999\n", true, false, 0},
	{"-\n", false, false, 0},
	{"٤٢\n", false, false, 0},
	{"\x00", false, false, 0},
}

func ZZ_C09_F5_FileContents() {
	zzv.RealFileIO()
	path := zzv.TempDir("dev") + "/pwm1"
	t := zzTexts[zzv.Choice("text", len(zzTexts))]
	zzv.FileText(path, t.text)
	v, err := ReadIntFromFile(path)
	zzv.Record("value", v)
	zzv.RecordB("failed", err != nil)
	if !t.digits {
		zzv.Assert(err != nil, "F5.text_without_a_number_is_an_error")
	}
	if t.plain {
		zzv.Assert(err == nil, "F5.plain_integer_is_read")
		zzv.Assert(v == t.value, "F5.plain_integer_value")
	}
}

//zzv:bound F6 = the real WriteIntToFile / WriteIntToFileAtomic bodies (every PWM and mode write goes through them; elsewhere they are the device-file model) followed by the real ReadIntFromFile, for 12 concrete values (-1, 0, 1, 9, 10, 42, 99, 100, 128, 254, 255, 256): no panic, no error, and the file reads back as the value written

var zzWriteValues = []int{-1, 0, 1, 9, 10, 42, 99, 100, 128, 254, 255, 256}

func ZZ_C09_F6_WriteThenRead() {
	zzv.RealFileIO()
	path := zzv.TempDir("dev") + "/pwm1"
	zzv.FileText(path, "7\n")
	v := zzWriteValues[zzv.Choice("value", len(zzWriteValues))]
	var err error
	if zzv.Choice("atomic", 2) == 1 {
		err = WriteIntToFileAtomic(v, path)
	} else {
		err = WriteIntToFile(v, path)
	}
	zzv.Assert(err == nil, "F6.write_succeeds")
	back, rerr := ReadIntFromFile(path)
	zzv.Record("readBack", back)
	zzv.Assert(rerr == nil, "F6.written_file_is_readable")
	zzv.Assert(back == v, "F6.reads_back_as_written")
}
