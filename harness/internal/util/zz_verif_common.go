package util

// ZZSetState / ZZState expose the PID memory to harnesses in other packages (overlay only).
func (p *PidLoop) ZZSetState(err, integral float64) {
	p.error = err
	p.integral = integral
}

func (p *PidLoop) ZZState() (float64, float64) { return p.error, p.integral }

func zzTrim(s string) string {
	for len(s) > 0 && s[len(s)-1] == '\n' {
		s = s[:len(s)-1]
	}
	for len(s) > 0 && s[0] == '\n' {
		s = s[1:]
	}
	return s
}
