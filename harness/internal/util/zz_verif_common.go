package util

// ZZSetState / ZZState expose the PID memory to harnesses in other packages (overlay only).
func (p *PidLoop) ZZSetState(err, integral float64) {
	p.error = err
	p.integral = integral
}

func (p *PidLoop) ZZState() (float64, float64) { return p.error, p.integral }
