package util

import "github.com/markusressel/fan2go/internal/zzv"

// C12 N1: FindClosest returns an element of the (strictly increasing) list and no element is
// strictly nearer to the target; exact hits are returned exactly; clamping at both ends.
func ZZ_C12_N1_FindClosest() {
	maxLen := 12
	if zzv.Thorough() {
		maxLen = 16
	}
	n := zzv.Choice("len", maxLen) + 1
	// quick: the property's own domain (keys 0..255, requests -50..305, widened to +-1000);
	// thorough additionally: keys and requests anywhere in +-2^31 (no overflow in the distance arithmetic)
	lo, hi, tlo, thi := 0, 255, -1000, 1000
	if zzv.Thorough() {
		if zzv.Choice("wide", 2) == 1 {
			zzv.Assume(n <= 8)
			lo, hi, tlo, thi = -(1 << 31), 1<<31, -(1 << 31), 1<<31
		}
	}
	arr := make([]int, n)
	for i := 0; i < n; i++ {
		arr[i] = zzv.Int("a")
		zzv.Assume(arr[i] >= lo)
		zzv.Assume(arr[i] <= hi)
		if i > 0 {
			zzv.Assume(arr[i-1] < arr[i])
		}
	}
	t := zzv.Int("target")
	zzv.Assume(t >= tlo)
	zzv.Assume(t <= thi)

	r := FindClosest(t, arr)
	zzv.Record("result", r)

	isElem := false
	nearest := true
	exact := true
	for i := 0; i < n; i++ {
		isElem = zzv.Or(isElem, arr[i] == r)
		nearest = zzv.And(nearest, zzv.AbsInt(r-t) <= zzv.AbsInt(arr[i]-t))
		exact = zzv.And(exact, zzv.Implies(arr[i] == t, r == t))
	}
	zzv.Assert(isElem, "N1.element")
	zzv.Assert(nearest, "N1.nearest")
	zzv.Assert(exact, "N1.exact")
	zzv.Assert(zzv.Implies(t <= arr[0], r == arr[0]), "N1.clamp_low")
	zzv.Assert(zzv.Implies(t >= arr[n-1], r == arr[n-1]), "N1.clamp_high")
}

//zzv:bound N1 = real FindClosest: all strictly increasing key lists of length 1..12 (thorough 1..16), keys 0..255 and targets -1000..1000 (thorough additionally keys/targets anywhere in +-2^31, length <= 8; longer lists and wider ranges were tried and run into the 300 s cap): the result is an element, no element is strictly nearer, exact hits are returned, requests beyond either end use that end
//zzv:bound N2 = real ExtractKeysWithDistinctValues + SortedKeys on maps with 1..5 (thorough 1..6) entries, keys any distinct 0..255 inserted in any order, outputs any 0..255 (constant, single-entry and non-monotonic maps included): the result is exactly the first key of each run of equal outputs in key order, ascending
//zzv:outside empty maps (outside the property); key lists longer than the bound; outputs equal to -1 (the implementation's sentinel, not a PWM value)
//zzv:opts inttimeout_quick=120
//zzv:stub sort.Slice inside util.sortSlice is a sorting network over the concrete-length slice

func ZZ_C12_N2_DistinctKeys() {
	maxN := 5
	if zzv.Thorough() {
		maxN = 6 // 8 entries: a cvc5 query of several minutes per path, the run does not finish in 90 minutes
	}
	n := zzv.Choice("entries", maxN) + 1
	keys := make([]int, n)
	outs := make([]int, n)
	m := map[int]int{}
	for i := 0; i < n; i++ {
		keys[i] = zzv.Int("key")
		outs[i] = zzv.Int("out")
		zzv.Assume(zzv.And(keys[i] >= 0, keys[i] <= 255))
		zzv.Assume(zzv.And(outs[i] >= 0, outs[i] <= 255))
		for j := 0; j < i; j++ {
			zzv.Assume(keys[j] != keys[i])
		}
		m[keys[i]] = outs[i] // insertion order is arbitrary with respect to key order
	}
	res := ExtractKeysWithDistinctValues(m)
	zzv.Record("distinct", len(res))
	// oracle: key k is listed iff no smaller key exists whose successor-in-key-order is k with the same output
	for i := 0; i < n; i++ {
		// predecessor of keys[i] in key order
		hasPred := false
		predKey := -1
		predOut := -1
		for j := 0; j < n; j++ {
			better := zzv.And(keys[j] < keys[i], keys[j] > predKey)
			predOut = zzv.IteInt(better, outs[j], predOut)
			predKey = zzv.IteInt(better, keys[j], predKey)
			hasPred = zzv.Or(hasPred, keys[j] < keys[i])
		}
		want := zzv.Or(zzv.Not(hasPred), predOut != outs[i])
		listed := false
		for _, r := range res {
			listed = zzv.Or(listed, r == keys[i])
		}
		zzv.Assert(listed == want, "N2.first_key_of_each_run")
	}
	asc := true
	for i := 1; i < len(res); i++ {
		asc = zzv.And(asc, res[i-1] < res[i])
	}
	zzv.Assert(asc, "N2.ascending")
	zzv.Assert(len(res) >= 1, "N2.never_empty_for_nonempty_map")
}
