package util

import "github.com/markusressel/fan2go/internal/zzv"

// C12 N1: FindClosest returns an element of the (strictly increasing) list and no element is
// strictly nearer to the target; exact hits are returned exactly; clamping at both ends.
func ZZ_C12_N1_FindClosest() {
	maxLen := 12
	if zzv.Thorough() {
		maxLen = 32
	}
	n := zzv.Choice("len", maxLen) + 1
	// quick: the property's own domain (keys 0..255, requests -50..305, widened to +-1000);
	// thorough additionally: keys and requests anywhere in +-2^31 (no overflow in the distance arithmetic)
	lo, hi, tlo, thi := 0, 255, -1000, 1000
	if zzv.Thorough() {
		if zzv.Choice("wide", 2) == 1 {
			zzv.Assume(n <= 12)
			lo, hi, tlo, thi = -(1 << 31), 1<<31, -(1 << 31), 1<<31
		}
	}
	arr := make([]int, n)
	for i := 0; i < n; i++ {
		arr[i] = zzv.Int("a")
		zzv.Assume(arr[i] >= lo)
		zzv.Assume(arr[i] <= hi)
		if i > 0 {
			zzv.Assume(arr[i-1] < arr[i])
		}
	}
	t := zzv.Int("target")
	zzv.Assume(t >= tlo)
	zzv.Assume(t <= thi)

	r := FindClosest(t, arr)
	zzv.Record("result", r)

	isElem := false
	nearest := true
	exact := true
	for i := 0; i < n; i++ {
		isElem = zzv.Or(isElem, arr[i] == r)
		nearest = zzv.And(nearest, zzv.AbsInt(r-t) <= zzv.AbsInt(arr[i]-t))
		exact = zzv.And(exact, zzv.Implies(arr[i] == t, r == t))
	}
	zzv.Assert(isElem, "N1.element")
	zzv.Assert(nearest, "N1.nearest")
	zzv.Assert(exact, "N1.exact")
	zzv.Assert(zzv.Implies(t <= arr[0], r == arr[0]), "N1.clamp_low")
	zzv.Assert(zzv.Implies(t >= arr[n-1], r == arr[n-1]), "N1.clamp_high")
}
