package control_loop

import "github.com/markusressel/fan2go/internal/zzv"

//zzv:bound M5 = the direct control algorithm itself, with and without maxPwmChangePerCycle (any limit 1..255): real DirectControlLoop.Cycle twice from the same previous request (any 0..255) with targets t1 <= t2 (any 0..255): the result for t1 is not above the result for t2, and both results lie on the side of the previous request the target lies on (a lower target never raises the request, a higher one never lowers it)

func ZZ_C07_M5_DirectLoopMonotoneInTarget() {
	var limit *int
	if zzv.Choice("limited", 2) == 1 {
		m := zzv.Int("maxChange")
		zzv.Assume(zzv.And(m >= 1, m <= 255))
		limit = &m
	}
	l := NewDirectControlLoop(limit)
	cur := zzv.Int("current")
	t1 := zzv.Int("target1")
	t2 := zzv.Int("target2")
	zzv.Assume(zzv.And(cur >= 0, cur <= 255))
	zzv.Assume(zzv.And(t1 >= 0, t1 <= 255))
	zzv.Assume(zzv.And(t2 >= 0, t2 <= 255))
	zzv.Assume(t1 <= t2)
	r1 := l.Cycle(t1, cur)
	r2 := l.Cycle(t2, cur)
	zzv.Record("r1", r1)
	zzv.Record("r2", r2)
	zzv.Assert(r1 <= r2, "M5.direct_loop_nondecreasing_in_target")
	zzv.Assert(zzv.Implies(t1 <= cur, r1 <= cur), "M5.lower_target_never_raises_the_request")
	zzv.Assert(zzv.Implies(t2 >= cur, r2 >= cur), "M5.higher_target_never_lowers_the_request")
}
