package control_loop

import "github.com/markusressel/fan2go/internal/util"

// ZZMaxChange exposes the configured limit to harnesses in other packages (overlay only).
func (l *DirectControlLoop) ZZMaxChange() *int { return l.maxPwmChangePerCycle }

// ZZPid exposes the PID memory of the loop to harnesses in other packages (overlay only).
func (l *PidControlLoop) ZZPid() *util.PidLoop { return l.pidLoop }
