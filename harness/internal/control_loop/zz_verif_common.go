package control_loop

// ZZMaxChange exposes the configured limit to harnesses in other packages (overlay only).
func (l *DirectControlLoop) ZZMaxChange() *int { return l.maxPwmChangePerCycle }
