package internal

import (
	"fmt"

	"github.com/markusressel/fan2go/internal/configuration"
	"github.com/markusressel/fan2go/internal/hwmon"
	"github.com/markusressel/fan2go/internal/sensors"
	"github.com/markusressel/fan2go/internal/zzv"
)

//zzv:bound S = real initializeSensors on 3 chips in any enumeration order, each with 0..3 temperature inputs on arbitrary distinct indices (1..16), one hwmon sensor entry naming exactly one chip and an index 1..16: on success the sensor reads the input of that index on the named chip; a missing index is an error naming the entry, never a panic and never another chip's input
//zzv:outside as for the fan binding: libsensors discovery and regular-expression semantics beyond the concrete patterns

type zzSChip struct{ platform, path string }

var zzSChips = []zzSChip{{"k10temp", "/sys/class/hwmon/hwmon1"}, {"nvme", "/sys/class/hwmon/hwmon3"}, {"acpitz", "/sys/class/hwmon/hwmon5"}}

var zzSPerms = [][3]int{{0, 1, 2}, {0, 2, 1}, {1, 0, 2}, {1, 2, 0}, {2, 0, 1}, {2, 1, 0}}

func ZZ_C17_S_SensorBinding() {
	perm := zzSPerms[zzv.Choice("order", len(zzSPerms))]
	byChip := make([]*hwmon.HwMonController, 3)
	var idx [3][]int
	var inputs [3][]string
	for c := 0; c < 3; c++ {
		n := zzv.Choice(fmt.Sprintf("inputs%d", c), 4)
		dir := zzv.TempDir(fmt.Sprintf("hwmon%d", c))
		ctrl := &hwmon.HwMonController{Name: zzSChips[c].platform, Platform: zzSChips[c].platform, Path: dir, Sensors: map[int]*sensors.HwmonSensor{}}
		for i := 0; i < n; i++ {
			k := zzv.Int(fmt.Sprintf("chip%d.index", c))
			zzv.Assume(k >= 1)
			zzv.Assume(k <= 16)
			for _, o := range idx[c] {
				zzv.Assume(o != k)
			}
			idx[c] = append(idx[c], k)
			in := fmt.Sprintf("%s/temp_slot%d_input", dir, i) // the file name only has to identify the input
			zzv.FilePut(in, true, 42000)
			inputs[c] = append(inputs[c], in)
			ctrl.Sensors[k] = &sensors.HwmonSensor{Label: "t", Index: k, Input: in}
		}
		byChip[c] = ctrl
	}
	var list []*hwmon.HwMonController
	for _, c := range perm {
		list = append(list, byChip[c])
	}
	target := zzv.Choice("namedChip", 3)
	want := zzv.Int("index")
	zzv.Assume(want >= 1)
	zzv.Assume(want <= 16)
	configuration.CurrentConfig.Sensors = []configuration.SensorConfig{{ID: "zztemp", HwMon: &configuration.HwMonSensorConfig{Platform: zzSChips[target].platform, Index: want}}}

	err := initializeSensors(list)

	exists := false
	for _, k := range idx[target] {
		exists = zzv.Or(exists, k == want)
	}
	zzv.RecordB("bound", err == nil)
	zzv.Assert((err == nil) == exists, "S.error_iff_index_missing")
	if err != nil {
		return
	}
	s, ok := sensors.GetSensor("zztemp")
	zzv.Assert(ok, "S.sensor_registered")
	if !ok {
		return
	}
	hs := s.(*sensors.HwmonSensor)
	right := true
	for i, k := range idx[target] {
		right = zzv.And(right, zzv.Implies(k == want, hs.Input == inputs[target][i]))
	}
	zzv.Assert(right, "S.bound_to_named_chip_and_index")
}

//zzv:bound S2 = real initializeSensors with two hwmon sensor entries (each naming one of two chips and an index 1..8; each chip with 0..2 temperature inputs on symbolic distinct indices, both enumeration orders): start-up fails exactly when at least one entry names a device that does not exist, and on success each entry is bound to the input of its own chip and index - never to the device another entry resolved to

func ZZ_C17_S2_TwoSensorEntries() {
	var idx [2][]int
	var inputs [2][]string
	byChip := make([]*hwmon.HwMonController, 2)
	for c := 0; c < 2; c++ {
		n := zzv.Choice(fmt.Sprintf("inputs%d", c), 3)
		dir := zzv.TempDir(fmt.Sprintf("hwmon%d", c))
		ctrl := &hwmon.HwMonController{Name: zzSChips[c].platform, Platform: zzSChips[c].platform, Path: dir, Sensors: map[int]*sensors.HwmonSensor{}}
		for i := 0; i < n; i++ {
			k := zzv.Int(fmt.Sprintf("chip%d.index", c))
			zzv.Assume(k >= 1)
			zzv.Assume(k <= 8)
			for _, o := range idx[c] {
				zzv.Assume(o != k)
			}
			idx[c] = append(idx[c], k)
			in := fmt.Sprintf("%s/temp_slot%d_input", dir, i)
			zzv.FilePut(in, true, 42000)
			inputs[c] = append(inputs[c], in)
			ctrl.Sensors[k] = &sensors.HwmonSensor{Label: "t", Index: k, Input: in}
		}
		byChip[c] = ctrl
	}
	list := []*hwmon.HwMonController{byChip[0], byChip[1]}
	if zzv.Choice("order", 2) == 1 {
		list = []*hwmon.HwMonController{byChip[1], byChip[0]}
	}
	ids := []string{"zztempA", "zztempB"}
	var target [2]int
	var want [2]int
	configuration.CurrentConfig.Sensors = nil
	for e := 0; e < 2; e++ {
		target[e] = zzv.Choice("namedChip."+ids[e], 2)
		want[e] = zzv.Int("index." + ids[e])
		zzv.Assume(want[e] >= 1)
		zzv.Assume(want[e] <= 8)
		configuration.CurrentConfig.Sensors = append(configuration.CurrentConfig.Sensors,
			configuration.SensorConfig{ID: ids[e], HwMon: &configuration.HwMonSensorConfig{Platform: zzSChips[target[e]].platform, Index: want[e]}})
	}

	err := initializeSensors(list)

	allExist := true
	for e := 0; e < 2; e++ {
		exists := false
		for _, k := range idx[target[e]] {
			exists = zzv.Or(exists, k == want[e])
		}
		allExist = zzv.And(allExist, exists)
	}
	zzv.RecordB("started", err == nil)
	zzv.Assert((err == nil) == allExist, "S2.error_iff_some_entry_names_a_missing_device")
	if err != nil {
		return
	}
	for e := 0; e < 2; e++ {
		s, ok := sensors.GetSensor(ids[e])
		zzv.Assert(ok, "S2.sensor_registered")
		if !ok {
			return
		}
		hs := s.(*sensors.HwmonSensor)
		right := true
		for i, k := range idx[target[e]] {
			right = zzv.And(right, zzv.Implies(k == want[e], hs.Input == inputs[target[e]][i]))
		}
		zzv.Assert(right, "S2.each_entry_bound_to_its_own_device")
	}
}
