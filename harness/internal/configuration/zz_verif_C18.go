package configuration

import (
	"github.com/markusressel/fan2go/internal/zzv"
)

//zzv:bound A4 = real validateConfig on an otherwise sound configuration that declares 0..2 command sensors (in front of or behind a plain file sensor; each one referenced by a linear curve, by a pid curve, or by no curve at all) and 0..1 command fans (with or without a curve of its own), configuration file with any owner uid and group gid (32 bit each) and any of the 512 permission modes: whenever at least one command sensor or command fan is declared and the file is not root-controlled the configuration is rejected; a root-controlled file never causes a rejection
//zzv:outside the YAML loader; where the daemon runs the declared commands (initializeSensors / initializeFans create every declared entry, referenced or not)
//zzv:stub os.Stat / filepath.EvalSymlinks return the metadata chosen by the harness

// A4: "The same test is applied to the configuration file itself whenever it declares a command
// sensor or fan" - declared, not "declared and used by a curve": the daemon creates (and polls)
// every declared sensor.
func ZZ_C18_A4_ConfigFileRule() {
	path := zzv.TempDir("cfg") + "/fan2go.yaml"
	uid := zzv.Uint32("cfg.uid")
	gid := zzv.Uint32("cfg.gid")
	mode := zzv.Uint32("cfg.mode")
	zzv.Assume(mode <= 0o777)
	zzv.Assume(uid != 0xFFFFFFFF)
	zzv.Assume(gid != 0xFFFFFFFF)
	zzv.StatPut(path, true, uid, gid, mode)
	cfg := Configuration{
		Sensors: []SensorConfig{{ID: "s", File: &FileSensorConfig{Path: "/tmp/s"}}},
		Curves:  []CurveConfig{{ID: "c", Linear: &LinearCurveConfig{Sensor: "s", Min: 40, Max: 80}}},
		Fans:    []FanConfig{{ID: "f", Curve: "c", File: &FileFanConfig{Path: "/tmp/f"}}},
	}
	declared := 0
	nSensors := zzv.Choice("cmdSensors", 3)
	for i := 0; i < nSensors; i++ {
		id := zzName("cs", i)
		cfg.Sensors = append(cfg.Sensors, SensorConfig{ID: id, Cmd: &CmdSensorConfig{Exec: "/bin/true"}})
		declared++
		switch zzv.Choice(id+".use", 3) { // 0 unreferenced, 1 linear curve, 2 pid curve
		case 1:
			cfg.Curves = append(cfg.Curves, CurveConfig{ID: "l" + id, Linear: &LinearCurveConfig{Sensor: id, Min: 40, Max: 80}})
		case 2:
			cfg.Curves = append(cfg.Curves, CurveConfig{ID: "p" + id, PID: &PidCurveConfig{Sensor: id, SetPoint: 60, P: -0.05, I: -0.005, D: -0.005}})
		}
	}
	// position of the command sensors in the list: the plain sensor first (command sensors last) or
	// moved behind them (a command sensor first or in the middle, a plain one last)
	if zzv.Choice("plainSensorLast", 2) == 1 {
		cfg.Sensors = append(cfg.Sensors[1:], cfg.Sensors[0])
	}
	switch zzv.Choice("cmdFan", 3) { // 0 none, 1 on the shared curve, 2 declared first
	case 1:
		cfg.Fans = append(cfg.Fans, FanConfig{ID: "cf", Curve: "c", Cmd: &CmdFanConfig{SetPwm: &ExecConfig{Exec: "/bin/true"}, GetPwm: &ExecConfig{Exec: "/bin/true"}}})
		declared++
	case 2:
		cfg.Fans = append([]FanConfig{{ID: "cf", Curve: "c", Cmd: &CmdFanConfig{SetPwm: &ExecConfig{Exec: "/bin/true"}, GetPwm: &ExecConfig{Exec: "/bin/true"}}}}, cfg.Fans...)
		declared++
	}
	CurrentConfig = cfg
	err := validateConfig(&CurrentConfig, path)
	zzv.RecordB("accepted", err == nil)
	safe := zzv.And(uid == 0, zzv.And(zzv.Not(zzv.And(gid != 0, mode&0o020 != 0)), mode&0o002 == 0))
	if declared > 0 {
		zzv.Assert(zzv.Implies(zzv.Not(safe), err != nil), "A4.unsafe_config_file_with_command_entries_rejected")
	}
	zzv.Assert(zzv.Implies(safe, err == nil), "A4.root_controlled_file_accepted")
}
