package configuration

import (
	"github.com/markusressel/fan2go/internal/zzv"
)

//zzv:bound V1s = real validateSensors on 1..2 sensor entries, ids symbolic (empty or one of 3 names), each entry with any subset of the hwmon/file/cmd back ends, hwmon index any int: accepted only if the ids are pairwise distinct, every entry has exactly one backend and every hwmon index is >= 1
//zzv:bound V1c = real validateCurves (incl. validateNoLoops -> tarjan.Connections) on 3 curve entries with fixed distinct ids, each linear / pid / function / none / two-kinds, function curves with 0..2 members each any of the 3 curve ids, an undefined id or empty: accepted only if every entry has exactly one kind, sensors are named and defined, function types are supported, every member is a defined curve other than itself, and the reference relation is acyclic (oracle: transitive closure over the symbolic 3x3 adjacency matrix); cycles of length 1..3, dangling references and every DAG over 3 nodes are inside the bound
//zzv:bound V1d = real validateCurves on 2 curve entries with symbolic ids: duplicate curve ids are rejected
//zzv:bound V1f = real validateFans on 1..2 fan entries, symbolic ids and curve references, any subset of back ends, controlAlgorithm nil / empty / direct (limit any int or none) / pid (any gains): accepted only if ids are distinct, exactly one backend, the curve reference is non-empty and defined, a direct limit is > 0 and pid gains are not all zero
//zzv:bound V1w = real validateConfig on a small valid configuration with a defect injected in the sensors, curves or fans section (or none), with or without a command sensor / command fan, configuration file with any owner, group and mode: a defect in any section is rejected whatever the permission check says; an unsafe configuration file is rejected when command entries exist (C18 A4); a sound configuration is accepted
//zzv:bound V3 = the struct images of the forms documented in README.md / fan2go.yaml (hwmon, file, cmd sensors and fans, linear min/max and steps, pid, function curves of every type nested two deep, controlAlgorithm 'pid' and 'direct' via the real UnmarshalText, direct with maxPwmChangePerCycle) are accepted
//zzv:outside the YAML -> viper -> mapstructure loader (reflection); symbolic curve graphs with more than 3 nodes (larger graphs only from the concrete family V1g); the JSON spelling of controlAlgorithm (encoding/json)
//zzv:opts loopbound=400

func zzSensorEntry(tag string) SensorConfig {
	s := SensorConfig{ID: zzv.Id(tag+".id", 3)}
	b := zzv.Choice(tag+".backends", 8)
	if b&1 != 0 {
		s.HwMon = &HwMonSensorConfig{Platform: "p", Index: zzv.Int(tag + ".index")}
	}
	if b&2 != 0 {
		s.File = &FileSensorConfig{Path: "/tmp/x"}
	}
	if b&4 != 0 {
		s.Cmd = &CmdSensorConfig{Exec: "/bin/true"}
	}
	return s
}

func zzOne(a, b, c bool) bool {
	n := zzv.IteInt(a, 1, 0) + zzv.IteInt(b, 1, 0) + zzv.IteInt(c, 1, 0)
	return n == 1
}

func ZZ_C11_V1s_Sensors() {
	n := zzv.Choice("sensors", 2) + 1
	cfg := &Configuration{}
	for i := 0; i < n; i++ {
		cfg.Sensors = append(cfg.Sensors, zzSensorEntry(zzName("sensor", i)))
	}
	err := validateSensors(cfg)
	zzv.RecordB("accepted", err == nil)
	if err != nil {
		return
	}
	for i, s := range cfg.Sensors {
		zzv.Assert(zzOne(s.HwMon != nil, s.File != nil, s.Cmd != nil), "V1s.exactly_one_backend")
		if s.HwMon != nil {
			zzv.Assert(s.HwMon.Index >= 1, "V1s.hwmon_index_positive")
		}
		for j := 0; j < i; j++ {
			zzv.Assert(cfg.Sensors[j].ID != s.ID, "V1s.ids_distinct")
		}
	}
}

var zzFunctionTypes = []string{FunctionSum, FunctionDifference, FunctionAverage, FunctionDelta, FunctionMinimum, FunctionMaximum, "median"}

// zzCurveEntry (graph harness): a linear curve or a function curve with 0..2 symbolic members
func zzCurveEntry(id string, tag string) (CurveConfig, []string) {
	c := CurveConfig{ID: id}
	var members []string
	if zzv.Choice(tag+".kind", 2) == 0 {
		c.Linear = &LinearCurveConfig{Sensor: zzv.IdName(1), Min: 40, Max: 80}
		return c, nil
	}
	n := zzv.Choice(tag+".members", 3)
	for k := 0; k < n; k++ {
		members = append(members, zzv.Id(tag+".member", 4))
	}
	c.Function = &FunctionCurveConfig{Type: FunctionMaximum, Curves: members}
	return c, members
}

// zzKindEntry (kind harness): any combination of the three curve kinds with symbolic details
func zzKindEntry(id string) CurveConfig {
	c := CurveConfig{ID: id}
	k := zzv.Choice("kinds", 8)
	if k&1 != 0 {
		c.Linear = &LinearCurveConfig{Sensor: zzv.Id("linear.sensor", 4), Min: 40, Max: 80}
	}
	if k&2 != 0 {
		c.PID = &PidCurveConfig{Sensor: zzv.Id("pid.sensor", 4), SetPoint: 60, P: zzv.Float64("p"), I: zzv.Float64("i"), D: zzv.Float64("d")}
	}
	if k&4 != 0 {
		c.Function = &FunctionCurveConfig{Type: zzFunctionTypes[zzv.Choice("type", len(zzFunctionTypes))], Curves: []string{zzv.IdName(2)}}
	}
	return c
}

func ZZ_C11_V1k_CurveKinds() {
	cfg := &Configuration{Sensors: []SensorConfig{{ID: zzv.IdName(1), File: &FileSensorConfig{Path: "/tmp/t"}}}}
	cfg.Curves = []CurveConfig{zzKindEntry(zzv.IdName(1)), {ID: zzv.IdName(2), Linear: &LinearCurveConfig{Sensor: zzv.IdName(1), Min: 40, Max: 80}}}
	err := validateCurves(cfg)
	zzv.RecordB("accepted", err == nil)
	if err != nil {
		return
	}
	c := cfg.Curves[0]
	zzv.Assert(zzOne(c.Linear != nil, c.PID != nil, c.Function != nil), "V1c.exactly_one_kind")
	if c.Linear != nil {
		zzv.Assert(c.Linear.Sensor == zzv.IdName(1), "V1c.linear_sensor_defined")
	}
	if c.PID != nil {
		zzv.Assert(c.PID.Sensor == zzv.IdName(1), "V1c.pid_sensor_defined")
		zzv.Assert(zzv.Not(zzv.And(zzv.And(c.PID.P == 0, c.PID.I == 0), c.PID.D == 0)), "V1c.pid_gains_not_all_zero")
	}
	if c.Function != nil {
		zzv.Assert(c.Function.Type != "median", "V1c.function_type_supported")
	}
}

func ZZ_C11_V1c_CurveGraph() {
	cfg := &Configuration{Sensors: []SensorConfig{{ID: zzv.IdName(1), File: &FileSensorConfig{Path: "/tmp/t"}}}}
	ids := []string{zzv.IdName(1), zzv.IdName(2), zzv.IdName(3)}
	var members [3][]string
	for i := 0; i < 3; i++ {
		c, m := zzCurveEntry(ids[i], zzName("curve", i))
		cfg.Curves = append(cfg.Curves, c)
		members[i] = m
	}
	err := validateCurves(cfg)
	zzv.RecordB("accepted", err == nil)
	if err != nil {
		return
	}
	// oracle on the accepted configuration
	var adj [3][3]bool
	for i, c := range cfg.Curves {
		if c.Function != nil {
			for _, m := range members[i] {
				defined := false
				for j := 0; j < 3; j++ {
					adj[i][j] = zzv.Or(adj[i][j], m == ids[j])
					defined = zzv.Or(defined, m == ids[j])
				}
				zzv.Assert(defined, "V1c.member_is_a_defined_curve")
				zzv.Assert(m != ids[i], "V1c.no_self_reference")
			}
		}
	}
	// transitive closure (3 nodes: two squarings suffice)
	reach := adj
	for round := 0; round < 2; round++ {
		var next [3][3]bool
		for i := 0; i < 3; i++ {
			for j := 0; j < 3; j++ {
				r := reach[i][j]
				for k := 0; k < 3; k++ {
					r = zzv.Or(r, zzv.And(reach[i][k], reach[k][j]))
				}
				next[i][j] = r
			}
		}
		reach = next
	}
	acyclic := true
	for i := 0; i < 3; i++ {
		acyclic = zzv.And(acyclic, zzv.Not(reach[i][i]))
	}
	zzv.Assert(acyclic, "V1c.accepted_graph_is_acyclic")
}

func ZZ_C11_V1d_DuplicateCurveIds() {
	cfg := &Configuration{Sensors: []SensorConfig{{ID: zzv.IdName(1), File: &FileSensorConfig{Path: "/tmp/t"}}}}
	for i := 0; i < 2; i++ {
		cfg.Curves = append(cfg.Curves, CurveConfig{ID: zzv.Id(zzName("curve", i)+".id", 3), Linear: &LinearCurveConfig{Sensor: zzv.IdName(1), Min: 40, Max: 80}})
	}
	err := validateCurves(cfg)
	if err == nil {
		zzv.Assert(cfg.Curves[0].ID != cfg.Curves[1].ID, "V1d.curve_ids_distinct")
	}
}

func zzFanEntry(tag string) FanConfig {
	f := FanConfig{ID: zzv.Id(tag+".id", 3), Curve: zzv.Id(tag+".curve", 4)}
	b := zzv.Choice(tag+".backends", 8)
	if b&1 != 0 {
		f.HwMon = &HwMonFanConfig{Platform: "p", Index: zzv.Int(tag + ".index"), RpmChannel: zzv.Int(tag + ".rpmChannel"), PwmChannel: zzv.Int(tag + ".pwmChannel")}
	}
	if b&2 != 0 {
		f.File = &FileFanConfig{Path: "/tmp/pwm"}
	}
	if b&4 != 0 {
		f.Cmd = &CmdFanConfig{SetPwm: &ExecConfig{Exec: "/bin/true"}, GetPwm: &ExecConfig{Exec: "/bin/true"}}
	}
	switch zzv.Choice(tag+".algorithm", 5) {
	case 1:
		f.ControlAlgorithm = &ControlAlgorithmConfig{}
	case 2:
		f.ControlAlgorithm = &ControlAlgorithmConfig{Direct: &DirectControlAlgorithmConfig{}}
	case 3:
		m := zzv.Int(tag + ".maxChange")
		f.ControlAlgorithm = &ControlAlgorithmConfig{Direct: &DirectControlAlgorithmConfig{MaxPwmChangePerCycle: &m}}
	case 4:
		f.ControlAlgorithm = &ControlAlgorithmConfig{Pid: &PidControlAlgorithmConfig{P: zzv.Float64(tag + ".p"), I: zzv.Float64(tag + ".i"), D: zzv.Float64(tag + ".d")}}
	}
	return f
}

func ZZ_C11_V1f_Fans() {
	cfg := &Configuration{Curves: []CurveConfig{{ID: zzv.IdName(1), Linear: &LinearCurveConfig{Sensor: "s", Min: 40, Max: 80}}}}
	n := zzv.Choice("fans", 2) + 1
	for i := 0; i < n; i++ {
		cfg.Fans = append(cfg.Fans, zzFanEntry(zzName("fan", i)))
	}
	err := validateFans(cfg)
	zzv.RecordB("accepted", err == nil)
	if err != nil {
		return
	}
	for i, f := range cfg.Fans {
		zzv.Assert(zzOne(f.HwMon != nil, f.File != nil, f.Cmd != nil), "V1f.exactly_one_backend")
		zzv.Assert(f.Curve == zzv.IdName(1), "V1f.curve_reference_defined")
		for j := 0; j < i; j++ {
			zzv.Assert(cfg.Fans[j].ID != f.ID, "V1f.ids_distinct")
		}
		if f.ControlAlgorithm != nil && f.ControlAlgorithm.Direct != nil && f.ControlAlgorithm.Direct.MaxPwmChangePerCycle != nil {
			zzv.Assert(*f.ControlAlgorithm.Direct.MaxPwmChangePerCycle > 0, "V1f.direct_limit_positive")
		}
		if f.ControlAlgorithm != nil && f.ControlAlgorithm.Pid != nil {
			p := f.ControlAlgorithm.Pid
			zzv.Assert(zzv.Not(zzv.And(zzv.And(p.P == 0, p.I == 0), p.D == 0)), "V1f.pid_gains_not_all_zero")
		}
		if f.HwMon != nil {
			h := f.HwMon
			zzv.Assert(zzv.Or(zzv.And(h.Index >= 1, h.RpmChannel == 0), zzv.And(h.Index == 0, h.RpmChannel >= 1)), "V1f.index_xor_rpm_channel")
			zzv.Assert(h.PwmChannel >= 0, "V1f.pwm_channel_not_negative")
		}
	}
}

// V3: the documented forms
func ZZ_C11_V3_DocumentedFormsAccepted() {
	var pidAlg, directAlg ControlAlgorithmConfig
	zzv.Assert(pidAlg.UnmarshalText([]byte("pid")) == nil, "V3.controlAlgorithm_pid_spelling")
	zzv.Assert(directAlg.UnmarshalText([]byte("direct")) == nil, "V3.controlAlgorithm_direct_spelling")
	zzv.Assert(zzv.And(pidAlg.Pid != nil, directAlg.Direct != nil), "V3.controlAlgorithm_spellings_decode")
	ten := 10
	cfg := &Configuration{
		Sensors: []SensorConfig{
			{ID: "cpu_package", HwMon: &HwMonSensorConfig{Platform: "coretemp", Index: 1}},
			{ID: "file_sensor", File: &FileSensorConfig{Path: "/tmp/file_sensor"}},
			{ID: "cmd_sensor", Cmd: &CmdSensorConfig{Exec: "/usr/bin/nvidia-settings", Args: []string{"-a"}}},
		},
		Curves: []CurveConfig{
			{ID: "cpu_curve", Linear: &LinearCurveConfig{Sensor: "cpu_package", Min: 40, Max: 80}},
			{ID: "steps_curve", Linear: &LinearCurveConfig{Sensor: "file_sensor", Steps: map[int]float64{40: 0, 50: 50, 80: 255}}},
			{ID: "pid_curve", PID: &PidCurveConfig{Sensor: "cmd_sensor", SetPoint: 60, P: -0.05, I: -0.005, D: -0.005}},
			{ID: "avg", Function: &FunctionCurveConfig{Type: FunctionAverage, Curves: []string{"cpu_curve", "steps_curve"}}},
			{ID: "max", Function: &FunctionCurveConfig{Type: FunctionMaximum, Curves: []string{"avg", "pid_curve"}}},
			{ID: "sum", Function: &FunctionCurveConfig{Type: FunctionSum, Curves: []string{"cpu_curve"}}},
			{ID: "min", Function: &FunctionCurveConfig{Type: FunctionMinimum, Curves: []string{"cpu_curve", "pid_curve"}}},
			{ID: "delta", Function: &FunctionCurveConfig{Type: FunctionDelta, Curves: []string{"cpu_curve", "pid_curve"}}},
			{ID: "diff", Function: &FunctionCurveConfig{Type: FunctionDifference, Curves: []string{"max", "min"}}},
		},
		Fans: []FanConfig{
			{ID: "cpu", HwMon: &HwMonFanConfig{Platform: "nct6798", RpmChannel: 1, PwmChannel: 2}, NeverStop: true, Curve: "max", ControlAlgorithm: &pidAlg},
			{ID: "by_index", HwMon: &HwMonFanConfig{Platform: "nct6798", Index: 2}, Curve: "avg", ControlAlgorithm: &directAlg},
			{ID: "file_fan", File: &FileFanConfig{Path: "/tmp/file_fan", RpmPath: "/tmp/file_fan_rpm"}, Curve: "sum",
				ControlAlgorithm: &ControlAlgorithmConfig{Direct: &DirectControlAlgorithmConfig{MaxPwmChangePerCycle: &ten}}},
			{ID: "cmd_fan", Cmd: &CmdFanConfig{SetPwm: &ExecConfig{Exec: "/usr/bin/set", Args: []string{"%pwm%"}}, GetPwm: &ExecConfig{Exec: "/usr/bin/get"}}, Curve: "diff"},
		},
	}
	zzv.Assert(validateSensors(cfg) == nil, "V3.documented_sensors_accepted")
	zzv.Assert(validateCurves(cfg) == nil, "V3.documented_curves_accepted")
	zzv.Assert(validateFans(cfg) == nil, "V3.documented_fans_accepted")
}

// V1w: the whole validateConfig (sections + the configuration-file permission rule that applies
// when command sensors/fans exist): a defect in any one section must surface whatever the other
// sections and the permission check say.
func ZZ_C11_V1w_WholeConfig() {
	path := zzv.TempDir("cfg") + "/fan2go.yaml"
	uid := zzv.Uint32("cfg.uid")
	gid := zzv.Uint32("cfg.gid")
	mode := zzv.Uint32("cfg.mode")
	zzv.Assume(mode <= 0o777)
	zzv.Assume(uid != 0xFFFFFFFF)
	zzv.Assume(gid != 0xFFFFFFFF)
	zzv.StatPut(path, true, uid, gid, mode)
	cfg := Configuration{
		Sensors: []SensorConfig{{ID: "s", File: &FileSensorConfig{Path: "/tmp/s"}}},
		Curves:  []CurveConfig{{ID: "c", Linear: &LinearCurveConfig{Sensor: "s", Min: 40, Max: 80}}},
		Fans:    []FanConfig{{ID: "f", Curve: "c", File: &FileFanConfig{Path: "/tmp/f"}}},
	}
	withCmd := zzv.Choice("cmdEntry", 3) // 0 none, 1 cmd sensor, 2 cmd fan
	if withCmd == 1 {
		cfg.Sensors = append(cfg.Sensors, SensorConfig{ID: "cs", Cmd: &CmdSensorConfig{Exec: "/bin/true"}})
	}
	if withCmd == 2 {
		cfg.Fans = append(cfg.Fans, FanConfig{ID: "cf", Curve: "c", Cmd: &CmdFanConfig{SetPwm: &ExecConfig{Exec: "/bin/true"}, GetPwm: &ExecConfig{Exec: "/bin/true"}}})
	}
	defect := zzv.Choice("defect", 4) // 0 none, 1 sensors, 2 curves, 3 fans
	switch defect {
	case 1:
		cfg.Sensors[0].HwMon = &HwMonSensorConfig{Platform: "p", Index: 1} // two back ends
	case 2:
		cfg.Curves[0].Linear.Sensor = "undefined"
	case 3:
		cfg.Fans[0].Curve = "undefined"
	}
	CurrentConfig = cfg
	err := validateConfig(&CurrentConfig, path)
	zzv.RecordB("accepted", err == nil)
	safe := zzv.And(uid == 0, zzv.And(zzv.Not(zzv.And(gid != 0, mode&0o020 != 0)), mode&0o002 == 0))
	if defect != 0 {
		zzv.Assert(err != nil, "V1w.defect_in_any_section_is_rejected")
	}
	if withCmd != 0 {
		zzv.Assert(zzv.Implies(zzv.Not(safe), err != nil), "V1w.unsafe_config_file_with_cmd_entries_rejected")
	}
	if defect == 0 {
		zzv.Assert(zzv.Implies(zzv.Or(safe, withCmd == 0), err == nil), "V1w.sound_configuration_accepted")
	}
}

//zzv:bound V1g = real validateCurves on 8-node curve graphs from a concrete family (the symbolic graph harness V1c stops at 3 nodes): rings of every length 1..8 starting at node 0 and at node 3 (remaining nodes are linear leaves or a chain leading into the ring), a ring running through a first, a middle and a last member, and the DAGs chain-of-8, complete DAG (every i -> every j > i), diamond, binary tree, two roots sharing a subtree: every graph with a ring is rejected, every DAG accepted

// zzGraph8 builds the 8-node configuration of family member g; cyclic tells whether it has a ring.
func zzGraph8(g int) (cfg *Configuration, cyclic bool) {
	const n = 8
	id := func(i int) string { return "n" + string(rune('0'+i)) }
	edges := make([][]int, n)
	switch {
	case g < 8: // ring of length g+1 on nodes 0..g
		l := g + 1
		for i := 0; i < l; i++ {
			edges[i] = []int{(i + 1) % l}
		}
		cyclic = true
	case g < 13: // ring of length g-7 (1..5) on nodes 3.., with a chain 0 -> 1 -> 2 -> 3 leading into it
		l := g - 7
		edges[0], edges[1], edges[2] = []int{1}, []int{2}, []int{3}
		for i := 0; i < l; i++ {
			edges[3+i] = []int{3 + (i+1)%l}
		}
		cyclic = true
	case g == 13: // ring through a first, a middle and a last member: 0 -> {1, 6, 7}, 1 -> {7, 2, 6}, 2 -> {6, 0}
		edges[0], edges[1], edges[2] = []int{1, 6, 7}, []int{7, 2, 6}, []int{6, 0}
		cyclic = true
	case g == 14: // chain of 8
		for i := 0; i < n-1; i++ {
			edges[i] = []int{i + 1}
		}
	case g == 15: // complete DAG
		for i := 0; i < n-1; i++ {
			for j := i + 1; j < n; j++ {
				edges[i] = append(edges[i], j)
			}
		}
	case g == 16: // diamonds
		edges[0], edges[1], edges[2], edges[3] = []int{1, 2}, []int{3}, []int{3}, []int{4, 5}
		edges[4], edges[5] = []int{6}, []int{6}
	case g == 17: // binary tree
		edges[0], edges[1], edges[2] = []int{1, 2}, []int{3, 4}, []int{5, 6}
		edges[3] = []int{7}
	default: // two roots sharing a subtree
		edges[0], edges[1], edges[2], edges[3] = []int{2}, []int{2}, []int{3, 4}, []int{5}
	}
	cfg = &Configuration{Sensors: []SensorConfig{{ID: "s", File: &FileSensorConfig{Path: "/tmp/t"}}}}
	for i := 0; i < n; i++ {
		c := CurveConfig{ID: id(i)}
		if len(edges[i]) == 0 {
			c.Linear = &LinearCurveConfig{Sensor: "s", Min: 40, Max: 80}
		} else {
			var m []string
			for _, j := range edges[i] {
				m = append(m, id(j))
			}
			c.Function = &FunctionCurveConfig{Type: FunctionMaximum, Curves: m}
		}
		cfg.Curves = append(cfg.Curves, c)
	}
	return
}

func ZZ_C11_V1g_LargerGraphs() {
	g := zzv.Choice("graph", 19)
	cfg, cyclic := zzGraph8(g)
	err := validateCurves(cfg)
	zzv.RecordB("accepted", err == nil)
	if cyclic {
		zzv.Assert(err != nil, "V1g.graph_with_a_ring_is_rejected")
	} else {
		zzv.Assert(err == nil, "V1g.acyclic_graph_is_accepted")
	}
}
