package configuration

// ZZValidateCurves / ZZValidateFans expose the section validators to harnesses in other packages (overlay only).
func ZZValidateCurves(c *Configuration) error { return validateCurves(c) }
func ZZValidateFans(c *Configuration) error   { return validateFans(c) }
