package configuration

// ZZValidateCurves / ZZValidateFans expose the section validators to harnesses in other packages (overlay only).
func ZZValidateCurves(c *Configuration) error { return validateCurves(c) }
func ZZValidateFans(c *Configuration) error   { return validateFans(c) }

var zzNames = []string{"a", "b", "c", "d"}

func zzName(prefix string, i int) string { return prefix + zzNames[i] }
