package internal

import (
	"errors"
	"time"

	"github.com/markusressel/fan2go/internal/configuration"
	"github.com/markusressel/fan2go/internal/curves"
	"github.com/markusressel/fan2go/internal/fans"
	"github.com/markusressel/fan2go/internal/zzv"
)

//zzv:bound V2f = every fan entry that the real validateFans accepts out of {controlAlgorithm absent, empty, direct, direct with a limit (any int), pid (any gains), deprecated controlLoop}: the real initializeFanControllers selects an algorithm and one real control cycle of the resulting controller runs without a panic

type zzFixedCurve struct{ v int }

func (c *zzFixedCurve) GetId() string          { return "zzcurve" }
func (c *zzFixedCurve) Evaluate() (int, error) { return c.v, nil }
func (c *zzFixedCurve) CurrentValue() int      { return c.v }

func ZZ_C11_V2f_AlgorithmSelection() {
	dir := zzv.TempDir("fan")
	pwm := dir + "/pwm"
	zzv.FilePut(pwm, true, 100)
	cfg := configuration.FanConfig{ID: "zzfan", Curve: "zzcurve", File: &configuration.FileFanConfig{Path: pwm}}
	switch zzv.Choice("algorithm", 6) {
	case 1:
		cfg.ControlAlgorithm = &configuration.ControlAlgorithmConfig{}
	case 2:
		cfg.ControlAlgorithm = &configuration.ControlAlgorithmConfig{Direct: &configuration.DirectControlAlgorithmConfig{}}
	case 3:
		m := zzv.Int("maxChange")
		cfg.ControlAlgorithm = &configuration.ControlAlgorithmConfig{Direct: &configuration.DirectControlAlgorithmConfig{MaxPwmChangePerCycle: &m}}
	case 4:
		cfg.ControlAlgorithm = &configuration.ControlAlgorithmConfig{Pid: &configuration.PidControlAlgorithmConfig{P: zzv.Float64("p"), I: zzv.Float64("i"), D: zzv.Float64("d")}}
	case 5:
		cfg.ControlLoop = &configuration.ControlLoopConfig{P: zzv.Float64("p"), I: zzv.Float64("i"), D: zzv.Float64("d")}
	}
	whole := &configuration.Configuration{
		Curves: []configuration.CurveConfig{{ID: "zzcurve", Linear: &configuration.LinearCurveConfig{Sensor: "s", Min: 40, Max: 80}}},
		Fans:   []configuration.FanConfig{cfg},
	}
	if configuration.ZZValidateFans(whole) != nil {
		return
	}
	curves.RegisterSpeedCurve(&zzFixedCurve{v: zzv.Int("curveValue")})
	fan, err := fans.NewFan(cfg)
	zzv.Assert(err == nil, "V2f.accepted_fan_can_be_instantiated")
	if err != nil {
		return
	}
	configuration.CurrentConfig.ControllerAdjustmentTickRate = time.Millisecond
	configuration.CurrentConfig.RpmPollingRate = time.Millisecond
	mem := &zzStore{rpm: map[string]map[int]float64{}, maps: map[string]map[int]int{"zzfan": {0: 0, 255: 255}}}
	ctrls, err := initializeFanControllers(mem, map[configuration.FanConfig]fans.Fan{cfg: fan})
	zzv.Assert(err == nil, "V2f.controllers_created")
	for _, c := range ctrls {
		// real start-up, then up to two control cycles, then cancellation
		ctx, cancel := zzv.NewContext()
		zzv.CancelAfter(cancel, 3500) // native runs: start-up sleeps 2 s + 1 s before the first tick
		zzv.SetTicks(2)
		_ = c.Run(ctx) // a nil control algorithm panics in the first cycle
	}
	zzv.Assert(true, "V2f.first_control_cycles_run")
}

// zzStore is an in-memory persistence.Persistence.
type zzStore struct {
	rpm  map[string]map[int]float64
	maps map[string]map[int]int
}

var errZZMissing = errors.New("zz: not stored")

func (p *zzStore) Init() error { return nil }
func (p *zzStore) LoadFanPwmData(fan fans.Fan) (map[int]float64, error) {
	d, ok := p.rpm[fan.GetId()]
	if !ok {
		return nil, errZZMissing
	}
	return d, nil
}
func (p *zzStore) SaveFanPwmData(fan fans.Fan) error {
	p.rpm[fan.GetId()] = *fan.GetFanRpmCurveData()
	return nil
}
func (p *zzStore) DeleteFanPwmData(fan fans.Fan) error { delete(p.rpm, fan.GetId()); return nil }
func (p *zzStore) LoadFanPwmMap(fanId string) (map[int]int, error) {
	d, ok := p.maps[fanId]
	if !ok {
		return nil, errZZMissing
	}
	return d, nil
}
func (p *zzStore) SaveFanPwmMap(fanId string, m map[int]int) error { p.maps[fanId] = m; return nil }
func (p *zzStore) DeleteFanPwmMap(fanId string) error              { delete(p.maps, fanId); return nil }
