// Package gosensors is a pure-Go stand-in for github.com/md14454/gosensors (cgo, libsensors),
// used only by the verification machinery so that packages importing it type-check and
// compile offline. Discovery returns nothing; the code under verification that depends on
// discovery results (hwmon.GetChips) is outside every claim.
package gosensors

type SubFeatureType int32
type FeatureType int32

// values of sensors/sensors.h (libsensors 3.x)
const (
	FeatureTypeIn       FeatureType = 0x00
	FeatureTypeFan      FeatureType = 0x01
	FeatureTypeTemp     FeatureType = 0x02
	FeatureTypePower    FeatureType = 0x03
	FeatureTypeEnergy   FeatureType = 0x04
	FeatureTypeCurr     FeatureType = 0x05
	FeatureTypeHumidity FeatureType = 0x06
	FeatureTypeUnknown  FeatureType = 0x7fffffff

	SubFeatureTypeFanInput SubFeatureType = 0x0100
	SubFeatureTypeFanMin   SubFeatureType = 0x0101
	SubFeatureTypeFanMax   SubFeatureType = 0x0102

	SubFeatureTypeTempInput SubFeatureType = 0x0200
	SubFeatureTypeTempMax   SubFeatureType = 0x0201
	SubFeatureTypeTempMin   SubFeatureType = 0x0203
)

type SubFeature struct {
	Name    string
	Number  int32
	Type    SubFeatureType
	Mapping int32
	Flags   uint32
	Value   float64
}

func (s SubFeature) GetValue() float64 { return s.Value }

type Feature struct {
	Name   string
	Number int32
	Type   FeatureType
	Subs   []SubFeature
}

func (f Feature) GetSubFeatures() []SubFeature { return f.Subs }
func (f Feature) GetLabel() string             { return f.Name }
func (f Feature) GetValue() float64            { return f.GetSubFeatures()[0].GetValue() }

type Bus struct {
	Type int16
	Nr   int16
}

func (b Bus) String() string { return "*" }

type Chip struct {
	Prefix   string
	Bus      Bus
	Addr     int32
	Path     string
	Features []Feature
}

func (c Chip) String() string         { return c.Prefix }
func (c Chip) AdapterName() string    { return c.Bus.String() }
func (c Chip) GetFeatures() []Feature { return c.Features }

func Init()                    {}
func Cleanup()                 {}
func GetDetectedChips() []Chip { return nil }
